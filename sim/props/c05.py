"""C05 — Result caching is transparent (DESIGN §4 C05).

The same seeded plan (complete evaluations only, plus knob flips) is executed on three replicas built from a
reset state: A caching enabled throughout, B disabled throughout, C following the plan's flips.
"""
from __future__ import annotations

import copy

from .. import libpath  # noqa: F401
from ..kernel import Sim, SimBudget, set_current, op_watchdog
from ..runner import Result
from ..spec import BuildError
from ..qexec import QRun
from .. import gen as G
from .. import seams
from . import Prop
from .c04 import shrink_query_plan, _vars_of, _cache_state

from entity_query_language.cache_data import enable_caching, disable_caching


class C05(Prop):
    _states = None
    id = "C05"
    level = "exploration"
    title = "Result caching is transparent"
    campaigns = {
        "quick": [("main", 16000, 60), ("large", 12, 120), ("shared_subquery", 4000, 40), ("shared_condition", 4000, 40), ("known:disjunction+for_all", 320, 30),
                  ("known:disjunction+flatten", 320, 30), ("known:predicate_with_repeated_variable", 320, 30), ("known:disjunction_over_different_variables", 320, 30), ("known:disjunction_of_multi_variable_conjunction", 320, 30), ("rules", 3000, 40), ("known:rule_tree_with_alternative_or_next", 320, 40), ("known:kwargs_form_variable_in_multi_variable_query", 320, 30), ("known:falsy_operand", 600, 30)],
        "thorough": [("main", 250000, 1500), ("large", 160, 900), ("shared_subquery", 80000, 600), ("shared_condition", 80000, 600), ("known:disjunction+for_all", 4000, 300),
                     ("known:disjunction+flatten", 4000, 300), ("known:predicate_with_repeated_variable", 4000, 300), ("known:disjunction_over_different_variables", 20000, 300), ("known:disjunction_of_multi_variable_conjunction", 20000, 300), ("rules", 60000, 600), ("known:rule_tree_with_alternative_or_next", 6000, 400), ("known:kwargs_form_variable_in_multi_variable_query", 40000, 400), ("known:falsy_operand", 40000, 400)],
    }
    chunk = 40
    chunk_of = {"large": 1}
    rule = ("seeded pools of 1-3 queries (joins, disjunctions over equal and different variable sets, negation, "
            "for_all, nested queries, predicates, kwargs-form variables) over shared variables; histories of complete "
            "evaluations (each query 1-3 times, interleaved across queries) and cache-knob flips; executed on three "
            "replicas (cache on / off / following the flips) and compared op by op: row set always, row count when "
            "every variable of the query is selected. Non-trivial = replica A served >= 1 entry from an operator "
            "cache; distinct = distinct (op kind, outcome, rows>0) sequences")
    assumptions = [
        "differential between configurations of the real engine; a defect identical in both configurations is invisible",
        "no per-lookup cache bypass is injected: only the two configurations the property speaks about (and switching "
        "between them at evaluation boundaries) are exercised",
        "complete evaluations only (residue of abandoned ones is C04)",
    ]
    components = {"real": ["everything under src/entity_query_language except rendering"],
                  "stub": ["user data classes, predicates, domains (simulator-owned)"]}
    vacuity = {"quick": ["probe:cache_served", "probe:cache_served:Comparator", "probe:cache_served:AND.right",
                         "probe:cache_served:ElseIf.right", "probe:flip",
                         "probe:judged_count", "probe:cache_served_from_index_with_wildcard_level"]}

    def _gen_large(self, rng, tier):
        """Scale dimension: worlds of ~100 objects and cross joins that deliver > 10 000 rows, so that size
        thresholds inside the caches (eviction, resizing) are crossed."""
        n = rng.choice([101, 104, 110])
        vals = [1, 2, 3, 4]
        labels = [f"I{i}" for i in range(n)]
        objects = [{"l": l, "t": "Item", "f": {"a": rng.choice(vals), "b": rng.choice(vals), "c": rng.choice(vals),
                                              "tags": [rng.choice(vals)], "peer": rng.choice(labels),
                                              "kids": [rng.choice(labels)]}} for l in labels]
        world = {"objects": objects, "domains": {"d0": list(labels), "d1": list(labels), "d2": labels[:2]},
                 "vals": vals}
        shape = rng.choice(["join", "join+independent"])
        vars_ = [{"n": "x", "t": "Item", "dom": "d0", "kind": "list", "form": "let"},
                 {"n": "y", "t": "Item", "dom": "d1", "kind": "list", "form": "let"}]
        # a join condition that (almost) every pair satisfies: > 10 000 bindings recorded by one comparator
        join = rng.choice([["cmp", ["attr", ["v", "x"], "a"], "<=", ["call", ["v", "y"], "m1", [4]]],
                           ["cmp", ["attr", ["v", "x"], "a"], "!=", ["call", ["v", "y"], "m1", [9]]],
                           ["cmp", ["call", ["v", "x"], "m1", [5]], ">", ["attr", ["v", "y"], "c"]]])
        conds = [join]
        if rng.random() < 0.4:
            conds.append(["cmp", ["attr", ["v", "y"], "c"], "<=", ["lit", 5]])
        sel = ["x", "y"]
        if shape == "join+independent":
            vars_.append({"n": "z", "t": "Item", "dom": "d2", "kind": "list", "form": "let"})
            conds.append(["cmp", ["attr", ["v", "z"], "a"], "<=", ["lit", 5]])
            sel = ["x", "y", "z"]
        pool = {"vars": vars_, "queries": [{"id": "q0", "quant": "an", "shape": "set_of", "sel": sel, "conds": conds}]}
        ops = [["full", "q0"], ["full", "q0"]]
        if rng.random() < 0.3:
            ops.insert(1, ["flip"])
        return {"world": world, "pool": pool, "ops": ops, "cfg": {"large": True}}

    def gen(self, rng, tier, campaign):
        if campaign == "large":
            return self._gen_large(rng, tier)
        force = {}
        r = rng.random()
        if r < 0.35:
            # the shape the property names: conjunction of disjunctions over different variables
            force = {"n_vars": rng.choice([2, 3]), "depth": rng.choice([2, 3])}
        if campaign in ("shared_subquery", "shared_condition"):
            force = {"n_vars": rng.choice([2, 2, 2, 3]), "n_queries": rng.choice([2, 2, 3])}
        cfg = G.gen_config(rng, tier, **force)
        cfg["kinds"] = ["list"]
        cfg["allow_nodom"] = True
        # falsy attribute values (0, []) are dropped inside comparison operands by the pinned engine (the pure-
        # semantics defect of property C19) in a way that also depends on cache and de-duplication state; they are
        # kept in their own campaign
        cfg["truthy_only"] = campaign != "known:falsy_operand"
        if campaign == "known:falsy_operand":
            cfg["alphabet"] = "falsy"
        region = campaign.split(":", 1)[1] if campaign.startswith("known:") and campaign != "known:falsy_operand" else None
        if campaign in ("rules", "known:rule_tree_with_alternative_or_next"):
            cfg["vocab"] = [v for v in cfg["vocab"] if v not in ("forall", "kw", "nest", "flat")]
            want = set() if campaign == "rules" else {"rule_tree_with_alternative_or_next"}
            for _ in range(80):
                world = G.gen_world(rng, cfg)
                pool = G.gen_rule_pool(rng, cfg, world)
                if G.pool_regions(pool) == want:
                    break
            else:
                for q in pool["queries"]:
                    if G.query_regions(q) - want:
                        q["conds"] = []
                        if q.get("rule"):
                            q["rule"]["children"] = []
        else:
            world, pool = G.gen_world_and_pool(rng, cfg, want_region=region)
        if campaign == "shared_subquery":
            # one sub-query OBJECT as a conjunct of several queries: its operator caches are filled under one
            # query's binding context and read under another's
            G.share_subquery(rng, cfg, world, pool)
        if campaign == "shared_condition":
            # one join-condition OBJECT used by several queries behind different filters
            G.share_condition(rng, cfg, world, pool)
        ids = [q["id"] for q in pool["queries"]]
        ops = []
        for _ in range(rng.randint(1, 6 if tier == "quick" else 10)):
            if rng.random() < 0.2:
                ops.append(["flip"])
            else:
                ops.append(["full", rng.choice(ids)])
        for q in ids:
            ops.append(["full", q])
            if rng.random() < 0.5:
                ops.append(["full", q])
        return {"world": world, "pool": pool, "ops": ops, "cfg": cfg}

    # ------------------------------------------------------------------
    def _replica(self, plan, mode, sim, shadow=False):
        """Execute the plan in one cache configuration; returns list of outcomes per op (None for flips)."""
        seams.install()
        seams.PROBES_ON = (mode == "A")
        seams.SHADOW_ON = shadow
        seams.reset_shadow()
        run = QRun(sim, plan)
        has_rules = any(q.get("rule") or q.get("head") for q in plan["pool"]["queries"])
        enabled = mode != "B"
        (enable_caching if enabled else disable_caching)()
        outs = []
        try:
            limit = 120 if (plan.get("cfg") or {}).get("large") else 20
            for i, op in enumerate(plan["ops"]):
                sim.begin_op(i)
                with op_watchdog(limit):
                    if op[0] == "flip":
                        if mode == "C":
                            enabled = not enabled
                            (enable_caching if enabled else disable_caching)()
                        outs.append(None)
                    else:
                        outs.append(run.full(op[1]))
                        if has_rules:
                            run.forget_inferred_instances()
                if mode in ("A", "C") and getattr(self, "_states", None) is not None:
                    self._states.add((mode, op[0], enabled, _cache_state(run.pool)))
                sim.end_op()
        finally:
            run.finish()
            enable_caching()
            seams.PROBES_ON = False
            seams.SHADOW_ON = False
        return outs

    def execute(self, plan):
        self._states = set()
        sim = Sim("C05")
        sim.log_callbacks = False
        set_current(sim)
        res = Result()
        try:
            try:
                a = self._replica(plan, "A", sim)
                b = self._replica(plan, "B", sim)
                c = self._replica(plan, "C", sim) if any(op[0] == "flip" for op in plan["ops"]) else None
            except BuildError:
                res.skipped = True
                res.counters["build_failed"] += 1
                res.digest = sim.digest()
                return res
            except SimBudget as e:
                sim.violate("no-result-within-budget", {"cap": str(e)})
                a = b = c = None
            sig = []
            if a is not None:
                all_sel = {}
                pool_vars = {v["n"] for v in plan["pool"]["vars"]}
                for q in plan["pool"]["queries"]:
                    used = _vars_of(q)
                    all_sel[q["id"]] = used <= set(q["sel"]) and q.get("shape") in ("set_of", "entity") \
                        and not _has_multiplicity_terms(q)
                for i, op in enumerate(plan["ops"]):
                    if op[0] == "flip":
                        sim.count("probe:flip")
                        sig.append(("flip",))
                        continue
                    ra, rb = a[i], b[i]
                    rc = c[i] if c is not None else None
                    if rb.end != "done":
                        sim.count("probe:skipped_reference_raises")
                        sig.append(("full", "ref-raises", rb.exc))
                        continue
                    sim.count("probe:judged")
                    sig.append(("full", ra.end, len(ra.rows) > 0))
                    for name, r in (("A", ra), ("C", rc)):
                        if r is None:
                            continue
                        if r.end != "done":
                            sim.violate("raises-with-cache", {"replica": name, "query": op[1], "cached": r.brief(),
                                                              "uncached": rb.brief()}, op_index=i)
                        elif r.rowset() != rb.rowset():
                            sim.violate("result-set", {"replica": name, "query": op[1], "cached": r.brief(),
                                                       "uncached": rb.brief(),
                                                       "missing": sorted(map(repr, rb.rowset() - r.rowset()))[:8],
                                                       "extra": sorted(map(repr, r.rowset() - rb.rowset()))[:8]},
                                        op_index=i)
                        elif all_sel[op[1]]:
                            sim.count("probe:judged_count")
                            if len(r.rows) != len(rb.rows):
                                sim.violate("row-count", {"replica": name, "query": op[1], "cached": r.brief(),
                                                          "uncached": rb.brief()}, op_index=i)
                        if sim.violations:
                            break
                    if sim.violations:
                        break
            res.signature = tuple(sig)
            res.nontrivial = sim.counters.get("probe:cache_served", 0) > 0 and sim.counters.get("probe:judged", 0) > 0
        finally:
            set_current(None)
        res.violations = sim.violations
        res.digest = sim.digest()
        res.counters = sim.counters
        res.steps = sim.seq
        res.states = tuple(self._states)
        return res

    def shrink_candidates(self, plan):
        yield from shrink_query_plan(plan)


def _has_multiplicity_terms(q):
    """flatten() multiplies rows per inner element; 'all variables selected' does not pin its multiplicity."""
    found = []

    def walk(t):
        if isinstance(t, list):
            if t and t[0] in ("flat", "cat"):
                found.append(1)
            for x in t:
                walk(x)
    walk(q.get("conds", []))
    return bool(found)


PROP = C05()
