"""C04 — A query's answer does not depend on what was evaluated before it (DESIGN §4 C04)."""
from __future__ import annotations

import copy

from .. import libpath  # noqa: F401
from ..kernel import Sim, SimBudget, SimTimeout, set_current, op_watchdog
from ..runner import Result
from ..spec import BuildError
from ..qexec import QRun, freeze
from .. import gen as G
from . import Prop


USER_CODE_KINDS = frozenset(("get", "call", "cmp", "pred", "cpred", "init"))


class C04(Prop):
    id = "C04"
    level = "fault_enumeration"
    title = "A query's answer does not depend on what was evaluated before it"
    campaigns = {
        "quick": [("faultfree", 4000, 40), ("faults", 12000, 60), ("enumerated", 600, 60), ("the_enumerated", 1500, 60), ("rules_enumerated", 400, 60), ("extended", 4000, 60), ("shared_subquery", 15000, 60), ("known:extended_after_history", 3000, 40),
                  ("known:disjunction+for_all", 320, 30), ("known:disjunction+flatten", 320, 30),
                  ("known:disjunction+nested_query", 320, 30), ("known:predicate_with_repeated_variable", 320, 30), ("known:disjunction_over_different_variables", 320, 30), ("known:disjunction_of_multi_variable_conjunction", 320, 30), ("rules", 3000, 40), ("known:rule_tree_with_alternative_or_next", 320, 40), ("known:kwargs_form_variable_in_multi_variable_query", 320, 30), ("known:falsy_operand", 600, 30)],
        "thorough": [("faultfree", 60000, 600), ("faults", 200000, 1500), ("enumerated", 12000, 1500), ("the_enumerated", 40000, 1200), ("rules_enumerated", 8000, 1200), ("extended", 100000, 900), ("shared_subquery", 150000, 1200), ("known:extended_after_history", 60000, 600),
                     ("known:disjunction+for_all", 4000, 300), ("known:disjunction+flatten", 4000, 300),
                     ("known:disjunction+nested_query", 8000, 300), ("known:predicate_with_repeated_variable", 4000, 300), ("known:disjunction_over_different_variables", 20000, 300), ("known:disjunction_of_multi_variable_conjunction", 20000, 300), ("rules", 60000, 600), ("known:rule_tree_with_alternative_or_next", 6000, 400), ("known:kwargs_form_variable_in_multi_variable_query", 40000, 400), ("known:falsy_operand", 40000, 400)],
    }
    chunk = 40
    rule = ("seeded pools of 1-3 `an` queries (+ `the` variants) over shared variables with explicit domains; "
            "histories of full / take-k-then-close / take-k-and-keep (dropped, closed or parked+collected at a later "
            "step) / evaluate-with-the-j-th-user-callback-raising (an and the) / `the` raising by design with the "
            "exception held / probe; campaigns 'enumerated' and 'the_enumerated' execute, per sampled program, EVERY "
            "cut point k in 0..R and EVERY fault point j in 1..N; campaign 'rules' uses rule heads and Add-conclusion "
            "trees; every probe compares the aged query with a never-evaluated twin pool built from the same spec "
            "over the same objects. Non-trivial = a probe was judged after >= 1 abandoned or faulted evaluation that had "
            "already delivered >= 1 row or fired its fault (campaign 'faults'), or after >= 1 complete evaluation "
            "of a query sharing a variable (campaign 'faultfree'); distinct = distinct (op kind, outcome) sequences")
    assumptions = [
        "differential oracle: a defect that is wrong in the same way on a fresh query and on an aged one is invisible",
        "explicit domains are never empty; no two live iterators over the same nodes are compared",
        "all evaluation steps happen outside any symbolic block (mode defects are C08/C09)",
    ]
    components = {"real": ["everything under src/entity_query_language except rendering"],
                  "stub": ["user data classes, attribute getters, comparisons, predicates, constructors, domains "
                           "(simulator-owned: every call is an event and a fault point)"]}
    vacuity = {"quick": ["probe:judged", "probe:after_abandon", "fault_fired", "probe:after_fault",
                         "probe:shared_var_other_query_first", "probe:judged_the", "fault_fired:F3_in_the",
                         "fault_fired:F4_intrinsic_abort", "fault_fired:F1_cancel", "fault_fired:F2_orphan",
                         "enumerated_crash_points", "probe:query_extended_after_history"]}

    # ------------------------------------------------------------------ generation
    def _gen_the_enumerated(self, rng, tier):
        """Programs for crash-point enumeration of `the` evaluations: every variable selected, small domains so that
        'exactly one solution' is frequent, and often a top-level disjunction over one variable set (the shape whose
        de-duplication state matters after an abort)."""
        cfg = G.gen_config(rng, tier, all_selected=True, n_queries=1)
        cfg["truthy_only"] = True
        cfg["vocab"] = [v for v in cfg["vocab"] if v not in ("forall", "kw", "nest", "flat")]
        cfg["kinds"] = ["list", "list", "gen"]
        cfg["dups"] = False
        cfg["depth"] = max(1, min(cfg["depth"], 2))
        world, pool = G.gen_world_and_pool(rng, cfg)
        q = pool["queries"][0]
        if rng.random() < 0.6:
            cg = G.CondGen(rng, cfg, world, list(q["sel"]), {})
            cand = {"conds": [["or", cg.cond(list(q["sel"]), 0), cg.cond(list(q["sel"]), rng.choice([0, 0, 1]))]]}
            if not G.query_regions(cand):
                q["conds"] = cand["conds"]
        for d in world["domains"]:
            world["domains"][d] = list(dict.fromkeys(world["domains"][d]))[: rng.choice([2, 3, 4, 5])]
        t = copy.deepcopy(q)
        t["id"] = "t0"
        t["quant"] = "the"
        pool["queries"].append(t)
        return {"world": world, "pool": pool, "ops": [], "cfg": cfg, "enumerate": q["id"], "enumerate_the": "t0",
                "the_only": True}

    def gen(self, rng, tier, campaign):
        if campaign == "the_enumerated":
            return self._gen_the_enumerated(rng, tier)
        cfg = G.gen_config(rng, tier)
        if campaign == "extended":
            cfg["n_vars"] = rng.choice([1, 2, 2, 2, 3])
            cfg["depth"] = max(1, cfg["depth"])
        if campaign == "known:extended_after_history":
            cfg["n_vars"] = rng.choice([1, 2, 2, 2, 3])
            cfg["depth"] = max(1, cfg["depth"])
        if campaign == "shared_subquery":
            cfg["n_vars"] = rng.choice([2, 2, 2, 3])
            cfg["n_queries"] = rng.choice([2, 2, 3])
            cfg["depth"] = min(cfg["depth"], 2)
        cfg["kinds"] = ["list", "list", "tuple", "gen", "iterobj"]
        cfg["allow_nodom"] = True
        # falsy attribute values (0, []) are dropped inside comparison operands by the pinned engine (the pure-
        # semantics defect of property C19) in a way that also depends on cache and de-duplication state; they are
        # kept in their own campaign
        cfg["truthy_only"] = campaign != "known:falsy_operand"
        if campaign == "known:falsy_operand":
            cfg["alphabet"] = "falsy"
        region = campaign.split(":", 1)[1] if campaign.startswith("known:") and campaign not in (
            "known:falsy_operand", "known:extended_after_history") else None
        if campaign in ("rules", "rules_enumerated", "known:rule_tree_with_alternative_or_next"):
            cfg["vocab"] = [v for v in cfg["vocab"] if v not in ("forall", "kw", "nest", "flat")]
            want = set() if campaign in ("rules", "rules_enumerated") else {"rule_tree_with_alternative_or_next"}
            for _ in range(80):
                world = G.gen_world(rng, cfg)
                pool = G.gen_rule_pool(rng, cfg, world)
                if G.pool_regions(pool) == want:
                    break
            else:
                for q in pool["queries"]:
                    if G.query_regions(q) - want:
                        q["conds"] = []
                        if q.get("rule"):
                            q["rule"]["children"] = []
        else:
            world, pool = G.gen_world_and_pool(rng, cfg, want_region=region)
        if campaign == "shared_subquery":
            G.share_subquery(rng, cfg, world, pool)
        # `the` variants share the variables of the pool
        an_ids = [q["id"] for q in pool["queries"]]
        if campaign == "faults" and rng.random() < 0.4:
            for q in list(pool["queries"]):
                t = copy.deepcopy(q)
                t["id"] = "t" + q["id"][1:]
                t["quant"] = "the"
                pool["queries"].append(t)
        the_ids = [q["id"] for q in pool["queries"] if q["quant"] == "the"]
        if campaign in ("extended", "known:extended_after_history"):
            # queries that are extended (`with symbolic_mode(): with q: Pred(..)`); in the main campaign BEFORE the
            # query is evaluated for the first time, in the known-defect campaign AFTER it has a history (KF-C04-10)
            ext = [q["id"] for q in pool["queries"] if q["quant"] == "an" and q.get("shape") == "entity"
                   and not q.get("rule") and not q.get("head") and q.get("conds")]
            ops = []
            if ext:
                eq = rng.choice(ext)
                for _ in range(rng.randint(1, 3)):
                    r = rng.random()
                    if r < 0.45:
                        ops.append(["take", eq, rng.choice([1, 1, 2, 3]), "close"])
                    elif r < 0.7:
                        ops.append(["fault", eq, rng.choice([1, 2, 3, 4, 5, 6, 8, 10, 13, 17, 22])])
                    elif r < 0.85:
                        ops.append(["full", eq])
                    else:
                        ops.append(["take", eq, rng.choice([1, 2]), "s0"])
                        ops.append(["drop", "s0"])
                sel = [q["sel"][0] for q in pool["queries"] if q["id"] == eq][0]
                others = [v["n"] for v in pool["vars"] if v["n"] not in ("u", sel) and v.get("t") != "View"]
                if others and rng.random() < 0.6:
                    ext_op = ["extend", eq, "Linked", rng.choice(others)]
                else:
                    ext_op = ["extend", eq, rng.choice(["IsBig", "IsBigK"]), rng.choice([1, 2, 3])]
                if campaign == "extended":
                    ops.insert(0, ext_op)          # extended first, history afterwards
                else:
                    ops.append(ext_op)             # history first, then extended
                ops.append(["probe", eq])
                ops.append(["probe", eq])
            for q in an_ids:
                ops.append(["probe", q])
            return {"world": world, "pool": pool, "ops": ops, "cfg": cfg}
        if campaign in ("enumerated", "rules_enumerated"):
            plan = {"world": world, "pool": pool, "ops": [], "cfg": cfg, "enumerate": rng.choice(an_ids)}
            if campaign == "enumerated" and rng.random() < 0.5:
                # enumerate the crash points of the `the` variant of that query as well
                q = [x for x in pool["queries"] if x["id"] == plan["enumerate"]][0]
                t = copy.deepcopy(q)
                t["id"] = "t" + q["id"][1:]
                t["quant"] = "the"
                pool["queries"].append(t)
                plan["enumerate_the"] = t["id"]
                # small domains make 'exactly one solution' frequent
                for d in world["domains"]:
                    world["domains"][d] = world["domains"][d][: rng.choice([1, 2, 2, 3, 4])]
            return plan
        ops = []
        n_ops = rng.randint(1, 8 if tier == "quick" else 12)
        # only plain single-entity queries without rule parts are extended
        extendable = [q["id"] for q in pool["queries"] if q["quant"] == "an" and q.get("shape") == "entity"
                      and not q.get("rule") and not q.get("head") and q.get("conds")]
        slots = []
        sn = 0
        for _ in range(n_ops):
            q = rng.choice(an_ids)
            r = rng.random()
            if campaign == "faultfree":
                ops.append(["full", q] if r < 0.6 else ["probe", q])
                continue
            if r < 0.15:
                ops.append(["full", q])
            elif r < 0.35:
                ops.append(["take", q, rng.choice([0, 1, 1, 1, 2, 2, 3, 5]), "close"])
            elif r < 0.5:
                name = f"s{sn}"
                sn += 1
                slots.append(name)
                ops.append(["take", q, rng.choice([0, 1, 1, 2, 3]), name])
            elif r < 0.6 and slots:
                s = rng.choice(slots)
                # an orphaned iterator is only ever finalised later, never advanced again: advancing a suspended
                # evaluation after other evaluations touched the same nodes is two concurrently live iterators,
                # which no property speaks about (DESIGN §3 rule 4)
                ops.append([rng.choice(["drop", "park", "closeslot"]), s])
            elif r < 0.63:
                ops.append(["collect"])
            elif r < 0.66 and extendable and False:
                # the query is extended after it has a history: `with symbolic_mode(q): IsBig()` adds a condition
                eq = rng.choice(extendable)
                others = [v["n"] for v in pool["vars"] if v["n"] not in ("u",) and v.get("t") != "View"
                          and v["n"] not in [q["sel"][0] for q in pool["queries"] if q["id"] == eq]]
                if others and rng.random() < 0.5:
                    ops.append(["extend", eq, "Linked", rng.choice(others)])
                else:
                    ops.append(["extend", eq, rng.choice(["IsBig", "IsBigK"]), rng.choice([1, 2, 3])])
            elif r < 0.85:
                ops.append(["fault", q, rng.choice([1, 1, 2, 2, 3, 4, 5, 6, 8, 10, 13, 17, 22, 30, 45])])
            elif r < 0.92 and the_ids:
                rr = rng.random()
                if rr < 0.5:
                    ops.append(["the", rng.choice(the_ids), rng.choice([0, 1, 3])])
                elif rr < 0.8:
                    ops.append(["thefault", rng.choice(the_ids), rng.choice([1, 2, 3, 4, 5, 6, 8, 10, 13, 17])])
                else:
                    ops.append(["probe_the", rng.choice(the_ids)])
            else:
                ops.append(["probe", q])
        if slots:
            ops.append(["quiesce", rng.choice(["close", "drop", "park"])])
        for q in rng.sample(an_ids, len(an_ids)):
            ops.append(["probe", q])
            if rng.random() < 0.3:
                ops.append(["probe", q])
        for t in the_ids:
            if rng.random() < 0.7:
                ops.append(["probe_the", t])
        return {"world": world, "pool": pool, "ops": ops, "cfg": cfg}

    def normalise(self, plan):
        return plan

    # ------------------------------------------------------------------ execution
    def execute(self, plan):
        if plan.get("enumerate"):
            return self._execute_enumerated(plan)
        res = self._execute(plan)
        v = [x for x in res.violations if x.oracle == "dup-domain-multiset"]
        if v and not plan.get("_control"):
            # Is the multiplicity difference specific to the duplicated domain entries?  Control: the same history
            # over the same world with every domain de-duplicated.  If multiplicities are unstable there as well,
            # the difference is not about duplicates (row multiplicity in general is not part of this statement).
            ctrl = copy.deepcopy(plan)
            ctrl["_control"] = True
            ctrl["ops"] = ctrl["ops"][: v[0].op_index + 1]
            for d, labels in ctrl["world"]["domains"].items():
                ctrl["world"]["domains"][d] = list(dict.fromkeys(labels))
            r2 = self._execute(ctrl)
            if any(x.oracle == "dup-domain-multiset" and x.op_index == v[0].op_index for x in r2.violations):
                res.violations = [x for x in res.violations if x.oracle != "dup-domain-multiset"]
                res.counters["probe:multiset_diff_not_dup_specific"] += 1
        return res

    def _execute_enumerated(self, plan):
        """Crash-point enumeration for one sampled program: a dry run measures R rows and N user callbacks of the
        target query; then EVERY k in 0..R (cancel; orphan dropped at once; orphan parked and collected after the
        next evaluation) and EVERY j in 1..N (j-th user callback raises) is executed, each followed by two probes."""
        import hashlib
        q = plan["enumerate"]
        base = {k: v for k, v in plan.items() if k != "enumerate"}
        dry = dict(base, ops=[["full", q]])
        r0 = self._execute(dry)
        total = Result()
        total.digest = r0.digest
        if r0.skipped or r0.violations:
            return r0
        R = r0.counters.get("rows_last_full", 0)
        N = r0.counters.get("callbacks_last_full", 0)
        histories = []
        for k in range(0, (min(R, 12) + 1) if not plan.get("the_only") else 0):
            histories.append([["take", q, k, "close"], ["probe", q], ["probe", q]])
            histories.append([["take", q, k, "s0"], ["drop", "s0"], ["probe", q], ["probe", q]])
            histories.append([["take", q, k, "s0"], ["park", "s0"], ["full", q], ["collect"], ["probe", q], ["probe", q]])
        for j in range(1, (min(N, 60) + 1) if not plan.get("the_only") else 0):
            histories.append([["fault", q, j], ["probe", q], ["probe", q]])
        t = plan.get("enumerate_the")
        if t:
            rt = self._execute(dict(base, ops=[["the", t, 0]]))
            Nt = rt.counters.get("callbacks_last_the", 0)
            for j in range(1, min(Nt, 60) + 1):
                histories.append([["thefault", t, j], ["probe_the", t], ["probe", q]])
            histories.append([["the", t, 0], ["probe_the", t], ["probe", q]])
            histories.append([["the", t, 2], ["probe", q], ["probe_the", t]])
        digests = [r0.digest]
        sigs = []
        for ops in histories:
            r = self.execute(dict(base, ops=ops, campaign="faults"))
            total.counters.update(r.counters)
            total.counters["enumerated_crash_points"] += 1
            total.steps += r.steps
            digests.append(r.digest)
            sigs.append(r.signature)
            if r.violations:
                total.violations = r.violations
                total.replan = dict(base, ops=ops)
                break
        total.signature = tuple(sigs)
        total.nontrivial = (R > 0 or N > 0) and total.counters.get("probe:judged", 0) > 0
        total.digest = hashlib.sha256("".join(digests).encode()).hexdigest()
        total.counters["probe:enumerated_programs"] += 1
        return total

    def _execute(self, plan):
        sim = Sim("C04")
        sim.log_callbacks = False
        # user-code faults (F3) are raised from getters, methods, comparisons, predicates and constructors.
        # A fault inside a stream pull would destroy data (a generator that raised is dead), which is no longer
        # "unchanged data"; stream faults are exercised in C07 with an oracle that accounts for them.
        sim.fault_kinds = USER_CODE_KINDS
        set_current(sim)
        res = Result()
        try:
            run = QRun(sim, plan)
        except BuildError as e:
            set_current(None)
            res.skipped = True
            res.counters["build_failed"] += 1
            res.digest = sim.digest()
            return res
        sig = []
        states = set()
        tainted = set()
        has_rules = any(q.get("rule") or q.get("head") for q in plan["pool"]["queries"])
        snap0 = run.world.snapshot()
        dups = plan.get("_control") or any(len(set(d)) != len(d) for d in plan["world"]["domains"].values())
        residue = False        # an abandoned/faulted evaluation that had produced >= 1 row or fired a fault
        completed = set()      # queries evaluated completely so far
        held = []              # (release_at_op, exception)
        judged = False
        var_of = {q["id"]: set(_vars_of(q)) for q in plan["pool"]["queries"]}
        try:
            for i, op in enumerate(plan["ops"]):
                sim.begin_op(i)
                kind = op[0]
                held = [(t, e) for (t, e) in held if t > i]
                with op_watchdog(20):
                    if kind == "full":
                        f0 = sim.faultable_total
                        out = run.full(op[1])
                        sim.counters["rows_last_full"] = len(out.rows)
                        sim.counters["callbacks_last_full"] = sim.faultable_total - f0
                        sig.append(("full", out.end, len(out.rows) > 0))
                        if out.end == "done":
                            completed.add(op[1])
                    elif kind == "take":
                        s = run.start(f"_t{i}" if op[3] == "close" else op[3], op[1])
                        n = run.advance(s, op[2])
                        if op[3] == "close":
                            run.close(s)
                            run.drop(f"_t{i}")
                        if s.state in ("closed", "open", "failed") and (n > 0):
                            residue = True
                            sim.count("fault_fired:F1_cancel" if op[3] == "close" else "fault_fired:F2_orphan")
                        sig.append(("take", n, s.state))
                    elif kind in ("drop", "park", "closeslot", "resume"):
                        s = run.slots.get(op[1])
                        if s is None:
                            sig.append((kind, "noop"))
                        elif kind == "drop":
                            run.drop(op[1])
                            sig.append(("drop", s.state))
                        elif kind == "park":
                            run.park(op[1])
                            sig.append(("park", s.state))
                        elif kind == "closeslot":
                            if s.it is not None:
                                run.close(s)
                            sig.append(("closeslot", s.state))
                        else:
                            n = run.advance(s, 1) if s.it is not None else 0
                            sig.append(("resume", n, s.state))
                    elif kind == "quiesce":
                        # finalise every iterator still alive: the final probes run in a quiescent state
                        for name, s in list(run.slots.items()):
                            if s.it is not None:
                                if op[1] == "close":
                                    run.close(s)
                                    run.drop(name)
                                elif op[1] == "drop":
                                    run.drop(name)
                                else:
                                    run.park(name)
                        run.collect()
                        sig.append(("quiesce", op[1]))
                    elif kind == "collect":
                        run.collect()
                        sim.count("probe:collect_ran")
                        sig.append(("collect",))
                    elif kind == "fault":
                        out = run.full(op[1], fault_at=op[2])
                        if out.exc == "SimFault":
                            residue = True
                            sim.count("fault_fired:F3_callback_raise")
                        elif out.end == "done":
                            completed.add(op[1])
                        sig.append(("fault", out.end, out.exc, len(out.rows) > 0))
                    elif kind == "the":
                        f0 = sim.faultable_total
                        r = run.the_eval(op[1])
                        sim.counters["callbacks_last_the"] = sim.faultable_total - f0
                        if r[0] == "exc":
                            if r[1] in ("MultipleSolutionFound",):
                                residue = True
                                sim.count("fault_fired:F4_intrinsic_abort")
                            if op[2] > 0:
                                held.append((i + op[2] + 1, r[2]))
                        sig.append(("the", r[0], r[1] if r[0] == "exc" else None))
                    elif kind == "extend":
                        try:
                            run.extend(op[1], op[2], op[3])
                            sim.count("probe:query_extended_after_history")
                            sig.append(("extend", "ok"))
                        except (SimBudget, SimTimeout):
                            raise
                        except Exception as e:
                            tainted.add(op[1])      # half-applied extension: that query is not judged any more
                            sig.append(("extend", "raised:" + type(e).__name__))
                    elif kind == "thefault":
                        r = run.the_eval(op[1], fault_at=op[2])
                        if r[0] == "exc" and r[1] == "SimFault":
                            residue = True
                            sim.count("fault_fired:F3_callback_raise")
                            sim.count("fault_fired:F3_in_the")
                        sig.append(("thefault", r[0], r[1] if r[0] == "exc" else None))
                    elif kind == "probe_the":
                        live = [n for n, s in run.slots.items()
                                if s.it is not None and s.state == "open" and var_of[s.qid] & var_of[op[1]]]
                        live += [1] * len(run.parked)
                        aged = run.the_eval(op[1])
                        tw = run.twin()
                        tq = [q for q in plan["pool"]["queries"] if q["id"] == op[1]]
                        if tq and not (_vars_of(tq[0]) <= set(tq[0].get("sel", []))):
                            # `the` is only specified for descriptions in which every variable is selected (C06):
                            # with an unselected variable the number of "solutions" is a matter of row multiplicity
                            sim.count("probe:the_not_judged_unselected_variable")
                            sig.append(("probe_the", "unselected-var"))
                        elif live or tw is None:
                            sig.append(("probe_the", "not-judged"))
                        else:
                            ref = run.the_eval(op[1], pool=tw, quiet=True)
                            an_id = "q" + op[1][1:]
                            dup_rows = False
                            if an_id in tw.queries:
                                tw2 = run.twin()
                                ra = run.full(an_id, pool=tw2, quiet=True) if tw2 is not None else None
                                dup_rows = ra is None or ra.end != "done" or len(ra.rows) != len(ra.rowset())
                            if dup_rows:
                                # what `the` should do when `an` delivers the same row twice is not stated (C06)
                                sim.count("probe:the_not_judged_duplicate_rows")
                                sig.append(("probe_the", "dup-rows"))
                            elif ref[0] == "exc" and ref[1] not in ("MultipleSolutionFound", "NoSolutionFound"):
                                sim.count("probe:skipped_twin_raises")
                                sig.append(("probe_the", "twin-raises", ref[1]))
                            else:
                                judged = True
                                sim.count("probe:judged_the")
                                if residue:
                                    sim.count("probe:after_abandon")
                                a = (aged[0], freeze(aged[1]))
                                b = (ref[0], freeze(ref[1]))
                                if a != b:
                                    sim.violate("the-outcome", {"query": op[1], "aged": repr(a), "twin": repr(b)})
                                sig.append(("probe_the", aged[0], aged[1] if aged[0] == "exc" else None))
                    elif kind == "probe":
                        qid = op[1]
                        live = [n for n, s in run.slots.items()
                                if s.it is not None and s.state == "open" and var_of[s.qid] & var_of[qid]]
                        live += [1] * len(run.parked)
                        aged = run.full(qid)
                        if has_rules:
                            run.forget_inferred_instances()
                        tw = run.twin()
                        same_q_live = [s for n, s in run.slots.items()
                                       if s.it is not None and s.state == "open" and s.qid == qid]
                        if qid in tainted:
                            sig.append(("probe", "tainted"))
                        elif live and len(same_q_live) == len(live) and tw is not None:
                            # Only earlier iterators of THIS query are suspended (abandoned but still referenced, never
                            # advanced again).  What two live iterators of one query deliver is demanded by no
                            # property, so the relaxation is narrow: rows that a suspended iterator has itself already
                            # delivered (or that share a component with one) may be missing from this evaluation,
                            # nothing else may differ.
                            ref = run.full(qid, pool=tw, quiet=True)
                            if ref.end == "done" and aged.end == "done":
                                emitted = set()
                                for s in same_q_live:
                                    emitted |= {freeze(r) for r in s.rows}
                                sim.count("probe:judged_with_suspended_iterator_of_same_query")
                                missing = ref.rowset() - aged.rowset()
                                extra = aged.rowset() - ref.rowset()
                                # the pinned engine de-duplicates on projections: a row that shares a component (the
                                # binding of one selected variable / one field of a constructed instance) with a row
                                # the suspended iterator delivered may be missing as well
                                em_parts = set()
                                for r in emitted:
                                    em_parts |= _row_parts(r)
                                missing = {r for r in missing if not (_row_parts(r) & em_parts)}
                                if extra or missing:
                                    sim.violate("result-set-while-abandoned-iterator-alive", {
                                        "query": qid, "aged": aged.brief(), "twin": ref.brief(),
                                        "missing_beyond_rows_the_suspended_iterator_delivered":
                                            sorted(map(repr, missing))[:8],
                                        "extra": sorted(map(repr, extra))[:8]})
                            sig.append(("probe", "live-same-query", aged.end))
                        elif live:
                            # another query's evaluation over shared nodes is suspended right now: not judged
                            sim.count("probe:not_judged_live_iterator")
                            sig.append(("probe", "live"))
                        elif tw is None:
                            sig.append(("probe", "twin-build-failed"))
                        else:
                            ref = run.full(qid, pool=tw, quiet=True)
                            if ref.end != "done":
                                sim.count("probe:skipped_twin_raises")
                                sig.append(("probe", "twin-raises", ref.exc))
                            else:
                                judged = True
                                sim.count("probe:judged")
                                if residue:
                                    sim.count("probe:after_abandon")
                                if sim.counters.get("fault_fired:F3_callback_raise"):
                                    sim.count("probe:after_fault")
                                others = [c for c in completed if c != qid and var_of[c] & var_of[qid]]
                                if others:
                                    sim.count("probe:shared_var_other_query_first")
                                if aged.end != "done":
                                    sim.violate("probe-raised", {"query": qid, "aged": aged.brief(),
                                                                 "twin": ref.brief()})
                                elif aged.rowset() != ref.rowset():
                                    sim.violate("result-set", {"query": qid, "aged": aged.brief(), "twin": ref.brief(),
                                                               "missing": sorted(map(repr, ref.rowset() - aged.rowset()))[:8],
                                                               "extra": sorted(map(repr, aged.rowset() - ref.rowset()))[:8]})
                                elif dups and aged.multiset() != ref.multiset():
                                    sim.violate("dup-domain-multiset", {"query": qid, "aged": aged.brief(),
                                                                        "twin": ref.brief()})
                                sig.append(("probe", aged.end, len(aged.rows) > 0))
                            if aged.end == "done":
                                completed.add(qid)
                if has_rules:
                    run.forget_inferred_instances()
                if run.world.snapshot() != snap0:
                    sim.violate("user-data-modified", {"after_op": op})
                states.add((kind, tuple(sorted(s.state for s in run.slots.values() if s.it is not None)),
                            len(run.parked), len(held), residue, len(completed),
                            _cache_state(run.pool)))
                sim.end_op()
                if sim.violations:
                    break
        except SimBudget as e:
            sim.violate("no-result-within-budget", {"op": plan["ops"][sim.op_index], "cap": str(e)})
        finally:
            run.finish()
            set_current(None)
        res.violations = sim.violations
        res.digest = sim.digest()
        res.counters = sim.counters
        res.signature = tuple(sig)
        res.nontrivial = judged and (residue or plan.get("campaign") == "faultfree" and len(completed) > 0)
        res.steps = sim.seq
        res.states = tuple(states)
        return res

    # ------------------------------------------------------------------ shrinking
    def shrink_candidates(self, plan):
        yield from shrink_query_plan(plan)


def _row_parts(row):
    """Components of a delivered row: (variable, label) pairs of a set_of row, (field, label) pairs of a constructed
    instance, or the label itself."""
    if isinstance(row, tuple) and row and all(isinstance(e, tuple) and len(e) == 2 for e in row):
        return set(row)
    if isinstance(row, tuple) and row and isinstance(row[0], str):
        return {e for e in row[1:] if isinstance(e, tuple)} or {("", row)}
    return {("", row)}


def _cache_state(pool):
    """Coverage measure only (never an oracle): bucketed sizes / flags of the operator caches of every query."""
    out = []
    for qid, q in sorted(pool.queries.items()):
        n_entries = n_all = n_nodes = 0
        try:
            for node in q._all_nodes_:
                for attr in ("_cache_", "right_cache", "left_cache"):
                    c = getattr(node, attr, None)
                    if c is not None and hasattr(c, "seen_set"):
                        n_nodes += 1
                        n_entries += len(c.seen_set.seen)
                        n_all += bool(c.seen_set.all_seen)
        except Exception:
            pass
        out.append((qid, min(n_entries, 6) if n_entries < 6 else (8 if n_entries < 20 else 32), n_all))
    return tuple(out)


def _vars_of(q):
    out = set(q.get("sel", []))

    def walk(t):
        if isinstance(t, list):
            if len(t) == 2 and t[0] == "v":
                out.add(t[1])
            for x in t:
                walk(x)
        elif isinstance(t, dict):
            for x in t.values():
                walk(x)
    walk(q.get("conds", []))
    walk(q.get("head", []))
    walk(q.get("rule", {}))
    return out


def shrink_query_plan(plan):
    """Generic simplifications for query-family plans: smaller numbers in ops, fewer queries, simpler
    condition trees, fewer variables/objects, simpler domain kinds."""
    # numeric op arguments
    for i, op in enumerate(plan["ops"]):
        for j, a in enumerate(op):
            if isinstance(a, int) and not isinstance(a, bool) and a > 0:
                for new in (0, 1, a - 1):
                    if new < a:
                        c = copy.deepcopy(plan)
                        c["ops"][i][j] = new
                        yield c
    qs = plan["pool"]["queries"]
    used_q = {op[1] for op in plan["ops"] if len(op) > 1 and isinstance(op[1], str)}
    # drop unreferenced queries
    for k, q in enumerate(qs):
        if q["id"] not in used_q and len(qs) > 1:
            c = copy.deepcopy(plan)
            del c["pool"]["queries"][k]
            yield c
    # simplify condition trees
    for k, q in enumerate(qs):
        conds = q.get("conds", [])
        for ci in range(len(conds)):
            c = copy.deepcopy(plan)
            del c["pool"]["queries"][k]["conds"][ci]
            yield c
            for sub in _subtrees(conds[ci]):
                c = copy.deepcopy(plan)
                c["pool"]["queries"][k]["conds"][ci] = sub
                yield c
        if q.get("shape") == "set_of" and len(q["sel"]) > 1:
            for n in q["sel"]:
                c = copy.deepcopy(plan)
                c["pool"]["queries"][k]["sel"] = [x for x in q["sel"] if x != n]
                yield c
    # simplify variables
    for k, v in enumerate(plan["pool"]["vars"]):
        if v.get("kind", "list") != "list":
            c = copy.deepcopy(plan)
            c["pool"]["vars"][k]["kind"] = "list"
            yield c
        if v.get("form") != "let":
            c = copy.deepcopy(plan)
            c["pool"]["vars"][k]["form"] = "let"
            c["pool"]["vars"][k].pop("kw", None)
            yield c
        if v.get("t") != "Item":
            c = copy.deepcopy(plan)
            c["pool"]["vars"][k]["t"] = "Item"
            yield c
    used_v = set()
    for q in qs:
        used_v |= _vars_of(q)
    for k, v in enumerate(plan["pool"]["vars"]):
        if v["n"] not in used_v:
            c = copy.deepcopy(plan)
            del c["pool"]["vars"][k]
            yield c
    # shrink domains and objects
    for d, labels in plan["world"]["domains"].items():
        if len(labels) > 1:
            for j in range(len(labels)):
                c = copy.deepcopy(plan)
                del c["world"]["domains"][d][j]
                yield c
    used_d = {v.get("dom") for v in plan["pool"]["vars"]}
    for d in list(plan["world"]["domains"]):
        if d not in used_d:
            c = copy.deepcopy(plan)
            del c["world"]["domains"][d]
            yield c
    referenced = set()
    for labels in plan["world"]["domains"].values():
        referenced |= set(labels)
    for o in plan["world"]["objects"]:
        referenced.add(o["f"].get("peer"))
        referenced |= set(o["f"].get("kids", []))
    for k, o in enumerate(plan["world"]["objects"]):
        if o["l"] not in referenced and len(plan["world"]["objects"]) > 1:
            c = copy.deepcopy(plan)
            del c["world"]["objects"][k]
            yield c
    for k, o in enumerate(plan["world"]["objects"]):
        f = o["f"]
        if f.get("kids"):
            c = copy.deepcopy(plan)
            c["world"]["objects"][k]["f"]["kids"] = []
            yield c
        if f.get("peer") not in (None, o["l"]):
            c = copy.deepcopy(plan)
            c["world"]["objects"][k]["f"]["peer"] = o["l"]
            yield c
        if len(f.get("tags", [])) > 1:
            c = copy.deepcopy(plan)
            c["world"]["objects"][k]["f"]["tags"] = f["tags"][:1]
            yield c
        if o["t"] != "Item":
            c = copy.deepcopy(plan)
            c["world"]["objects"][k]["t"] = "Item"
            yield c


def _subtrees(c):
    """Immediate simplifications of a condition: replace by a child."""
    k = c[0]
    if k in ("and", "or"):
        for x in c[1:]:
            yield x
    elif k == "not":
        yield c[1]
    elif k == "nest":
        for x in c[2]:
            yield x
    elif k == "forall":
        yield c[2]


PROP = C04()
