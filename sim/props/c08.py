"""C08 — Symbolic mode is confined to its block (DESIGN §4 C08).

A flat plan interleaves LIFO block events (enter / leave / raise-through) with non-LIFO iterator life-cycle
events (make / advance / close / drop / park / collect).  After every op the ambient state is compared with
a small reference stack machine and with behavioural probes.
"""
from __future__ import annotations

import copy
import sys

from .. import libpath  # noqa: F401
from ..kernel import Sim, SimBudget, SimFault, SimTimeout, set_current, op_watchdog
from ..runner import Result
from ..spec import BuildError
from ..qexec import QRun
from .. import gen as G
from .. import world as W
from . import Prop
from .c04 import shrink_query_plan, USER_CODE_KINDS

from entity_query_language import symbolic_mode, rule_mode, From
from entity_query_language.enums import EQLMode
from entity_query_language.symbolic import (SymbolicExpression, _symbolic_mode, in_symbolic_mode, Variable)


class PlannedError(Exception):
    """The exception a plan raises inside a block (client-side fault)."""


class Machine:
    """The whole reference model."""

    def __init__(self):
        self.stack = []     # frames: ("mode", m) | ("expr",) | ("modeq", m)  [modeq = mode + expr as one unit]

    def expected_mode(self):
        for f in reversed(self.stack):
            if f[0] in ("mode", "modeq"):
                return f[1]
        return None

    def expr_depth(self):
        return sum(1 for f in self.stack if f[0] in ("expr", "modeq"))


class C08(Prop):
    id = "C08"
    level = "exploration"
    title = "Symbolic mode is confined to its block"
    campaigns = {"quick": [("main", 60000, 60)], "thorough": [("main", 1500000, 1800)]}
    chunk = 100
    rule = ("seeded interleavings of: enter symbolic_mode() / rule_mode() / symbolic_mode(q) / rule_mode(q) / `with q:`, "
            "leave, raise through d frames, create a result iterator (an / infer queries with user predicates), "
            "advance, close, drop, park in a cycle, collect, evaluate a `the` query; user callbacks may raise (F3). "
            "After every op: mode and expression stack vs the reference stack machine, plus behavioural probes "
            "(@symbol construction, @predicate call, symbolic operators). Non-trivial = at least one iterator "
            "life-cycle event happened while >= 1 block was open or across a block boundary; distinct = distinct "
            "(op kind, outcome, expected mode) sequences")
    assumptions = [
        "single OS thread; a second contextvars.Context (another task) is simulated as a deterministic actor whose block "
        "ops and in-evaluation toggles are scheduled by the plan; the class-level expression-context stack is not "
        "judged across contexts",
        "blocks are entered/left by calling __enter__/__exit__ on the real context managers, exactly what `with` does",
        "what ops return or raise is logged, not judged (C09 judges results); only mode and context are judged",
    ]
    components = {"real": ["symbolic_mode / rule_mode / SymbolicExpression.__enter__/__exit__ / An.evaluate / "
                           "The.evaluate / @symbol / @predicate and everything they call"],
                  "stub": ["user data classes, predicates, domains (simulator-owned)"]}
    vacuity = {"quick": ["probe:iter_event_inside_block", "probe:iter_finalised_after_block_left",
                         "probe:raise_through_block", "probe:nested_depth_ge_2", "probe:advance_delivered_inside_block",
                         "probe:mode_rule_seen", "probe:mode_query_seen", "probe:with_query_block",
                         "probe:iterator_over_rule_or_infer_query", "probe:helper_called_inside_block", "probe:rule_branch_block", "probe:block_op_in_second_context", "probe:raise_kind_KeyboardInterrupt",
                         "probe:raise_kind_GeneratorExit", "probe:raise_kind_StopIteration", "fault_fired:F3_callback_raise",
                         "fault_fired:F4_intrinsic_abort"]}

    # ------------------------------------------------------------------ generation
    def gen(self, rng, tier, campaign):
        cfg = G.gen_config(rng, tier)
        cfg["vocab"] = sorted(set(cfg["vocab"]) | {"fp"} | ({"cp"} if rng.random() < 0.5 else set()))
        cfg["n_obj"] = min(cfg["n_obj"], 5)
        cfg["depth"] = min(cfg["depth"], 2)
        cfg["inner_eval"] = True        # predicates that evaluate an inner query / act from a second Context
        if rng.random() < 0.3:
            # iterators that build instances (rule heads / Add conclusions) while blocks come and go
            cfg["vocab"] = [v for v in cfg["vocab"] if v not in ("forall", "kw", "nest", "flat")]
            for _ in range(40):
                world = G.gen_world(rng, cfg)
                pool = G.gen_rule_pool(rng, cfg, world)
                if not G.pool_regions(pool):
                    break
        else:
            world, pool = G.gen_world_and_pool(rng, cfg)
        an_ids = [q["id"] for q in pool["queries"]]
        if rng.random() < 0.4 and pool["queries"][0]["quant"] != "infer":
            t = copy.deepcopy(pool["queries"][0])
            t["id"] = "t0"
            t["quant"] = "the"
            pool["queries"].append(t)
        the_ids = [q["id"] for q in pool["queries"] if q["quant"] == "the"]
        ops = []
        depth = 0
        slots = []
        sn = 0
        n_ops = rng.randint(3, 16 if tier == "quick" else 30)
        for _ in range(n_ops):
            r = rng.random()
            if r < 0.22 and depth < 5:
                kind = rng.choice(["sym", "rule", "sym", "symq", "ruleq", "q", "refinement", "alternative"])
                op = ["enter", kind] + ([rng.choice(an_ids)] if kind in ("symq", "ruleq", "q") else [])
                ops.append(op)
                depth += 1
            elif r < 0.36 and depth > 0:
                ops.append(["leave"])
                depth -= 1
            elif r < 0.42 and depth > 0:
                d = rng.randint(1, depth)
                ops.append(["raise", d, rng.choice(["Planned", "Planned", "StopIteration", "GeneratorExit",
                                                     "KeyboardInterrupt"])])
                depth -= d
            elif r < 0.58 and len(slots) < 4:
                name = f"s{sn}"
                sn += 1
                slots.append(name)
                ops.append(["make", name, rng.choice(an_ids)])
            elif r < 0.8 and slots:
                op = ["adv", rng.choice(slots)]
                if rng.random() < 0.15:
                    op.append(rng.choice([1, 2, 3, 5, 8]))    # F3: j-th user callback of this step raises
                ops.append(op)
            elif r < 0.9 and slots:
                s = rng.choice(slots)
                ops.append([rng.choice(["close", "drop", "park"]), s])
            elif r < 0.93:
                ops.append(["collect"])
            elif r < 0.95:
                # 'another task': a second contextvars.Context enters / leaves a block of its own
                ops.append(["other", rng.choice(["enter_sym", "enter_rule", "leave"])])
            elif r < 0.97:
                # library helpers that open a block internally (let, kwargs-form construction) must restore the
                # ambient mode of the block they are called in
                ops.append(["build", rng.choice(["let", "kw", "let_nodom", "entity"])])
            elif the_ids:
                ops.append(["the", rng.choice(the_ids)])
            else:
                ops.append(["collect"])
        return {"world": world, "pool": pool, "ops": ops, "cfg": cfg}

    # ------------------------------------------------------------------ execution
    def execute(self, plan):
        sim = Sim("C08")
        sim.log_callbacks = False
        sim.fault_kinds = USER_CODE_KINDS
        set_current(sim)
        res = Result()
        try:
            run = QRun(sim, plan)
        except BuildError:
            set_current(None)
            res.skipped = True
            res.counters["build_failed"] += 1
            res.digest = sim.digest()
            return res
        m = Machine()
        states = set()   # abstract states reached (coverage measure only): mode, open blocks, iterator states
        frames = []      # real side: (kind, context manager or query, stack snapshot before enter)
        sig = []
        scratch = _Scratch(run)
        estack = SymbolicExpression._symbolic_expression_stack_
        left_any_block = False
        try:
            ops = list(plan["ops"]) + [["_unwind"]]
            for i, op in enumerate(ops):
                sim.begin_op(i)
                kind = op[0]
                outcome = None
                with op_watchdog(20):
                    if kind == "enter":
                        before = list(estack)
                        try:
                            if op[1] == "sym":
                                cm = symbolic_mode()
                                cm.__enter__()
                                m.stack.append(("mode", EQLMode.Query))
                            elif op[1] == "rule":
                                cm = rule_mode()
                                cm.__enter__()
                                m.stack.append(("mode", EQLMode.Rule))
                            elif op[1] == "symq":
                                cm = symbolic_mode(run.pool.queries[op[2]])
                                cm.__enter__()
                                m.stack.append(("modeq", EQLMode.Query))
                            elif op[1] == "ruleq":
                                cm = rule_mode(run.pool.queries[op[2]])
                                cm.__enter__()
                                m.stack.append(("modeq", EQLMode.Rule))
                            elif op[1] in ("refinement", "alternative"):
                                # rule-tree branch blocks (rule.py): `with refinement(cond):` pushes the new branch on
                                # the expression-context stack; only meaningful inside a block that has a current
                                # parent, otherwise constructing it raises and nothing may change
                                from entity_query_language import refinement as _ref, alternative as _alt
                                with symbolic_mode(mode=_symbolic_mode.get() or EQLMode.Rule):
                                    cond = scratch.var.a > 0
                                branch = (_ref if op[1] == "refinement" else _alt)(cond)
                                cm = branch
                                cm.__enter__()
                                m.stack.append(("expr",))
                                sim.count("probe:rule_branch_block")
                            else:
                                cm = run.pool.queries[op[2]]
                                cm.__enter__()
                                m.stack.append(("expr",))
                                sim.count("probe:with_query_block")
                            frames.append((op[1], cm, before))
                            outcome = "ok"
                            if len(frames) >= 2:
                                sim.count("probe:nested_depth_ge_2")
                        except Exception as e:   # entering failed: nothing may have changed
                            outcome = "enter-raised:" + type(e).__name__
                        exp_depth = m.expr_depth()
                        if len(estack) != exp_depth:
                            sim.violate("expr-stack-depth", {"after": op, "depth": len(estack), "expected": exp_depth})
                        elif estack[: len(before)] != before:
                            sim.violate("expr-stack-prefix", {"after": op})
                    elif kind in ("leave", "raise"):
                        n = 1 if kind == "leave" else op[1]
                        n = min(n, len(frames))
                        exc = None
                        if kind == "raise":
                            ek = op[2] if len(op) > 2 else "Planned"
                            exc = {"Planned": PlannedError("planned"), "StopIteration": StopIteration("planned"),
                                   "GeneratorExit": GeneratorExit("planned"),
                                   "KeyboardInterrupt": KeyboardInterrupt("planned")}[ek]
                            sim.count("probe:raise_kind_" + ek)
                        if kind == "raise" and n:
                            sim.count("probe:raise_through_block")
                        for _ in range(n):
                            fk, cm, before = frames.pop()
                            m.stack.pop()
                            left_any_block = True
                            try:
                                if exc is None:
                                    cm.__exit__(None, None, None)
                                else:
                                    try:
                                        raise exc
                                    except BaseException:
                                        et, ev, tb = sys.exc_info()
                                        swallowed = cm.__exit__(et, ev, tb)
                                        if swallowed:
                                            sim.violate("exception-swallowed-by-block", {"frame": fk, "exc": type(exc).__name__})
                            except (SimBudget, SimTimeout):
                                raise
                            except BaseException as e:
                                # contextmanager-based blocks re-raise the exception they were given (a StopIteration
                                # thrown into one comes back as RuntimeError); what matters is the state left behind
                                if not isinstance(e, (PlannedError, StopIteration, GeneratorExit, KeyboardInterrupt,
                                                      RuntimeError)):
                                    sim.event("exit-raised-other", type(e).__name__)
                            if list(estack) != before or any(a is not b for a, b in zip(estack, before)):
                                sim.violate("expr-stack-not-restored", {"after": op, "frame": fk,
                                                                        "depth": len(estack), "expected": len(before)})
                                break
                        outcome = n
                    elif kind == "make":
                        if run.pool.spec and any(q.get("rule") or q.get("head") for q in plan["pool"]["queries"]):
                            sim.count("probe:iterator_over_rule_or_infer_query")
                        s = run.start(op[1], op[2])
                        outcome = "made"
                        self._iter_event(sim, frames, left_any_block, s)
                    elif kind in ("adv", "close", "drop", "park"):
                        s = run.slots.get(op[1])
                        if s is None or s.it is None:
                            outcome = "noop"
                        else:
                            self._iter_event(sim, frames, left_any_block, s)
                            if kind == "adv":
                                sim.fault_at = op[2] if len(op) > 2 else None
                                sim.faultable_in_op = 0
                                n = run.advance(s, 1)
                                sim.fault_at = None
                                outcome = (n, s.state, s.exc)
                                if n and frames:
                                    sim.count("probe:advance_delivered_inside_block")
                                if s.exc == "SimFault":
                                    sim.count("fault_fired:F3_callback_raise")
                            elif kind == "close":
                                run.close(s)
                                outcome = s.state
                                sim.count("fault_fired:F1_cancel")
                            elif kind == "drop":
                                run.drop(op[1])
                                outcome = s.state
                                sim.count("fault_fired:F2_orphan")
                            else:
                                run.park(op[1])
                                outcome = s.state
                                sim.count("fault_fired:F2_orphan_cycle")
                    elif kind == "collect":
                        run.collect()
                        outcome = "collected"
                    elif kind == "other":
                        if op[1] == "leave":
                            run.other.leave()
                        else:
                            run.other.enter("sym" if op[1] == "enter_sym" else "rule")
                        sim.count("probe:block_op_in_second_context")
                        outcome = op[1]
                    elif kind == "build":
                        sim.count("probe:helper_called_inside_block" if frames else "probe:helper_called_outside_block")
                        try:
                            outcome = scratch.build(op[1])
                        except Exception as e:
                            outcome = "raised:" + type(e).__name__
                    elif kind == "the":
                        r = run.the_eval(op[1])
                        outcome = (r[0], r[1] if r[0] == "exc" else None)
                        if r[0] == "exc" and r[1] == "MultipleSolutionFound":
                            sim.count("fault_fired:F4_intrinsic_abort")
                    elif kind == "_unwind":
                        # end of run: leave every frame, finalise every iterator, collect; must end in (None, [])
                        while frames:
                            fk, cm, before = frames.pop()
                            m.stack.pop()
                            try:
                                cm.__exit__(None, None, None)
                            except Exception:
                                pass
                        for name, s in list(run.slots.items()):
                            if s.it is not None:
                                run.close(s)
                                run.drop(name)
                        run.collect()
                        outcome = "unwound"
                # ---------------------------------------------------------- oracle after every op
                exp = m.expected_mode()
                if exp == EQLMode.Rule:
                    sim.count("probe:mode_rule_seen")
                elif exp == EQLMode.Query:
                    sim.count("probe:mode_query_seen")
                got = _symbolic_mode.get()
                there = run.other.mode_seen_there()
                exp_there = None if run.other.cm is None else (EQLMode.Query if run.other.kind == "sym" else EQLMode.Rule)
                if there != exp_there:
                    sim.violate("mode-in-second-context", {"after": op, "mode_there": repr(there),
                                                           "expected_there": repr(exp_there), "mode_here": repr(got)})
                elif got != exp:
                    sim.violate("mode", {"after": op, "op_outcome": repr(outcome), "mode": repr(got),
                                         "expected": repr(exp), "open_blocks": [f[0] for f in frames],
                                         "live_iterators": [n for n, s in run.slots.items()
                                                            if s.it is not None and s.state == "open"]})
                elif in_symbolic_mode() != (exp is not None):
                    sim.violate("in_symbolic_mode", {"after": op})
                elif len(estack) != m.expr_depth():
                    sim.violate("expr-stack-depth", {"after": op, "depth": len(estack),
                                                     "expected": m.expr_depth()})
                else:
                    bad = scratch.behaviour(exp)
                    if bad:
                        sim.violate("behaviour", {"after": op, "expected_mode": repr(exp), "probe": bad})
                sig.append((kind, repr(outcome), repr(exp)))
                states.add((repr(exp), tuple(f[0] for f in frames),
                            tuple(sorted(s.state for s in run.slots.values() if s.it is not None)), len(run.parked)))
                sim.event("op", kind, repr(outcome), repr(exp))
                sim.end_op()
                if sim.violations:
                    break
        except SimBudget as e:
            sim.violate("no-result-within-budget", {"cap": str(e)})
        finally:
            # leave the process clean whatever happened
            while frames:
                fk, cm, before = frames.pop()
                try:
                    cm.__exit__(None, None, None)
                except BaseException:
                    pass
            for name, s in list(run.slots.items()):
                if s.it is not None:
                    try:
                        s.it.close()
                    except BaseException:
                        pass
                    s.it = None
            run.parked = []
            _symbolic_mode.set(None)
            del estack[:]
            run.finish()
            set_current(None)
        res.violations = sim.violations
        res.digest = sim.digest()
        res.counters = sim.counters
        res.signature = tuple(sig)
        res.nontrivial = sim.counters.get("probe:iter_event_inside_block", 0) + \
            sim.counters.get("probe:iter_finalised_after_block_left", 0) > 0
        res.steps = sim.seq
        res.states = tuple(states)
        return res

    @staticmethod
    def _iter_event(sim, frames, left_any_block, slot):
        if frames:
            sim.count("probe:iter_event_inside_block")
        if left_any_block and slot.state == "open":
            sim.count("probe:iter_finalised_after_block_left")

    def shrink_candidates(self, plan):
        yield from shrink_query_plan(plan)


class _Scratch:
    """Behavioural probes on scratch objects that belong to no query of the plan."""

    def __init__(self, run: QRun):
        self.obj = next(iter(run.world.objects.values()))
        self.dom = [self.obj]
        with symbolic_mode():
            self.var = W.Item(From(self.dom))

    def build(self, what):
        from entity_query_language import let, an, entity
        if what == "let":
            v = let(W.Item, self.dom)
        elif what == "let_nodom":
            v = let(W.Gadget)
        elif what == "kw":
            if not in_symbolic_mode():
                return "skipped"
            v = W.Item(From(self.dom), a=W.V(1))
        else:
            if not in_symbolic_mode():
                return "skipped"
            v = an(entity(let(W.Item, self.dom)))
        return type(v).__name__

    def behaviour(self, exp):
        """Returns a description of the first probe that disagrees with the expected mode, else None."""
        var, obj = self.var, self.obj
        if exp is None:
            try:
                o = W.Item(a=W.V(1))
                if type(o) is not W.Item or isinstance(o, SymbolicExpression):
                    return "constructing a @symbol class outside any block did not return a real instance: %s" % type(o).__name__
                r = W.p_odd(obj)
                if isinstance(r, SymbolicExpression) or r not in (True, False):
                    return "calling a @predicate function outside any block did not return a plain value"
            except Exception as e:
                return f"ordinary construction / predicate call outside any block raised {type(e).__name__}"
            for name, f in (("attribute", lambda: var.a), ("==", lambda: var == 1), ("[]", lambda: var[0]),
                            ("call", lambda: var()), ("<", lambda: var < 1)):
                try:
                    f()
                except AttributeError:
                    continue
                except Exception as e:
                    return f"symbolic operator {name} outside any block raised {type(e).__name__} instead of AttributeError"
                return f"symbolic operator {name} on a variable was accepted outside any block"
            return None
        try:
            v = W.Item(From(self.dom))
            if not isinstance(v, SymbolicExpression):
                return "constructing a @symbol class inside a block did not build an expression"
            p = W.p_odd(var)
            if not isinstance(p, SymbolicExpression):
                return "calling a @predicate function inside a block did not build an expression"
            a = var.a
            if not isinstance(a, SymbolicExpression):
                return "attribute access on a variable inside a block did not build an expression"
        except Exception as e:
            return f"building an expression inside a block raised {type(e).__name__}: {str(e)[:120]}"
        return None


PROP = C08()
