"""C09 — Evaluation gives the same answer inside and outside a symbolic block (DESIGN §4 C09).

One evaluation per run (iterator advanced step by step, or a full evaluation, or a `the` evaluation), whose
steps are spread by the plan over arbitrary ambient states reachable with block enter/leave/raise ops.
Reference: the same query evaluated in a pristine process state outside any block (phase 1 of the run).
"""
from __future__ import annotations

import copy
import sys

from .. import libpath  # noqa: F401
from ..kernel import Sim, SimBudget, set_current, op_watchdog
from ..runner import Result
from ..spec import BuildError
from ..qexec import QRun, freeze, Outcome
from .. import gen as G
from . import Prop
from .c04 import shrink_query_plan, USER_CODE_KINDS
from .c08 import PlannedError

from entity_query_language import symbolic_mode, rule_mode
from entity_query_language.symbolic import SymbolicExpression, _symbolic_mode, in_symbolic_mode


class C09(Prop):
    id = "C09"
    level = "exploration"
    title = "Evaluation gives the same answer inside and outside a symbolic block"
    campaigns = {"quick": [("main", 60000, 60)], "thorough": [("main", 1500000, 1800)]}
    chunk = 50
    rule = ("seeded queries and rules that use function predicates, Predicate subclasses (incl. HasType), "
            "infer(entity(T(f=e,..), ..)) heads and Add-conclusion rule trees, each under an / the / infer; one "
            "evaluation per run whose steps (create iterator, each next(), or one full/the evaluation) are placed by "
            "the plan among enter/leave/raise ops on symbolic_mode() / rule_mode() / symbolic_mode(q) / rule_mode(q) / "
            "`with q:` blocks, so every step may run under a different ambient state. Oracle: delivered rows (or the "
            "`the` outcome) equal those of the same spec evaluated in a pristine state outside any block; no delivered "
            "value is a symbolic expression; every user callback made during evaluation observes symbolic mode off "
            "and concrete arguments. Non-trivial = >= 1 evaluation step ran while a block was open and the query "
            "called user code; distinct = distinct (op kind, ambient mode, outcome) sequences")
    assumptions = [
        "differential against the same engine outside any block; reference raising => run not judged",
        "one evaluation per run, so registry growth from inference and re-evaluation residue (C04, C14) cannot reach "
        "this oracle",
    ]
    components = {"real": ["everything under src/entity_query_language except rendering"],
                  "stub": ["user data classes, predicates, constructors of inferred classes, domains (simulator-owned)"]}
    vacuity = {"quick": ["probe:step_inside_block", "probe:callback_inside_block", "probe:style_steps",
                         "probe:style_full", "probe:style_the", "probe:infer_head", "probe:add_rule",
                         "probe:class_predicate", "probe:function_predicate", "probe:ambient_rule",
                         "probe:ambient_query", "probe:instances_built_inside_block",
                         "probe:inner_evaluation_from_user_code"]}

    def gen(self, rng, tier, campaign):
        cfg = G.gen_config(rng, tier)
        cfg["vocab"] = sorted((set(cfg["vocab"]) - {"forall", "kw", "nest", "flat"}) | {rng.choice(["fp", "cp", "ht"])})
        cfg["n_obj"] = min(cfg["n_obj"], 5)
        cfg["depth"] = min(cfg["depth"], 2)
        cfg["n_queries"] = 1
        cfg["inner_eval"] = True
        flavour = rng.choice(["plain", "plain", "infer", "add"])
        if flavour == "plain":
            world, pool = G.gen_world_and_pool(rng, cfg)
        else:
            for _ in range(40):
                world = G.gen_world(rng, cfg)
                pool = G.gen_rule_pool(rng, cfg, world, kinds=(flavour,))
                pool["queries"] = pool["queries"][:1]
                if not G.pool_regions(pool):
                    break
            else:
                # could not draw a pool outside every known-defect region: strip it down to one that is
                for qq in pool["queries"]:
                    if G.query_regions(qq):
                        qq["conds"] = qq.get("conds", [])[:0]
                        if qq.get("rule"):
                            qq["rule"]["children"] = []
                        if qq.get("head") and G.query_regions(qq):
                            qq["head"] = ["Solo", {"of": ["v", pool["vars"][0]["n"]]}]
        q = pool["queries"][0]
        style = rng.choice(["steps", "steps", "full", "the"])
        if style == "the":
            if q["quant"] == "infer":
                style = "full"
            else:
                q["quant"] = "the"
        ops = []
        depth = 0
        made = False
        n_ops = rng.randint(2, 12)
        for k in range(n_ops):
            r = rng.random()
            if r < 0.3 and depth < 4:
                kind = rng.choice(["sym", "rule", "sym", "rule", "symq", "ruleq", "q"])
                ops.append(["enter", kind])
                depth += 1
            elif r < 0.45 and depth > 0:
                ops.append(["leave"])
                depth -= 1
            elif r < 0.5 and depth > 0:
                d = rng.randint(1, depth)
                ops.append(["raise", d])
                depth -= d
            elif style == "steps":
                if not made:
                    ops.append(["make"])
                    made = True
                else:
                    ops.append(["adv"])
            elif not made:
                ops.append(["eval"])
                made = True
        if not made:
            ops.append(["make"] if style == "steps" else ["eval"])
        if style == "steps":
            ops.append(["drain_mixed", rng.randint(0, 3)])
        return {"world": world, "pool": pool, "ops": ops, "style": style, "cfg": cfg}

    # ------------------------------------------------------------------
    def execute(self, plan):
        sim = Sim("C09")
        sim.log_callbacks = False
        set_current(sim)
        res = Result()
        qspec = plan["pool"]["queries"][0]
        qid = qspec["id"]
        style = plan["style"]
        # ---------------- phase 1: reference, pristine state, outside any block
        try:
            ref_run = QRun(sim, plan)
        except BuildError:
            set_current(None)
            res.skipped = True
            res.counters["build_failed"] += 1
            res.digest = sim.digest()
            return res
        try:
            if style == "the":
                r = ref_run.the_eval(qid, quiet=True)
                ref = ("the", r[0], freeze(r[1]))
                comparable = r[0] == "value" or r[1] in ("MultipleSolutionFound", "NoSolutionFound")
            else:
                o = ref_run.full(qid, quiet=True)
                ref = ("rows", o.end, o.rowset())
                comparable = o.end == "done"
        except SimBudget:
            comparable = False
        finally:
            ref_run.finish()
        if not comparable:
            set_current(None)
            res.skipped = True
            res.counters["probe:skipped_reference_raises"] += 1
            res.digest = sim.digest()
            return res
        # ---------------- phase 2: the same spec, rebuilt from a reset state, evaluated along the plan
        run = QRun(sim, plan)
        frames = []
        states = set()
        estack = SymbolicExpression._symbolic_expression_stack_
        sig = []
        slot = None
        final = None
        uses_user_code = [False]

        def observer(kind, who, what):
            uses_user_code[0] = True
            if frames:
                sim.count("probe:callback_inside_block")
            if kind == "init" and frames:
                sim.count("probe:instances_built_inside_block")
            if in_symbolic_mode() and kind in ("pred", "cpred", "init"):
                # the statement: user predicates run concretely, conclusions construct real instances
                sim.violate("user-callback-in-symbolic-mode", {"callback": kind, "who": repr(who),
                                                               "ambient": repr(_symbolic_mode.get()),
                                                               "open_blocks": [f[0] for f in frames]})
            if kind == "inner_eval":
                sim.count("probe:inner_evaluation_from_user_code")
                if what[0] != what[1]:
                    # evaluate() called by user code inside its own block, while an outer evaluation is running
                    sim.violate("nested-evaluate-inside-user-block-differs-from-plain-python", {
                        "object": repr(who), "evaluate_said": what[0], "plain_python": what[1], "inner_rows": what[2],
                        "ambient": repr(_symbolic_mode.get()), "open_blocks": [f[0] for f in frames]})
            if kind in ("pred", "cpred") and _is_symbolic_label(what):
                sim.violate("user-callback-symbolic-argument", {"callback": kind, "who": repr(who), "arg": repr(what)})
        sim.cb_observers.append(observer)
        try:
            _count_flavour(sim, qspec, style)
            ops = list(plan["ops"])
            for i, op in enumerate(ops):
                sim.begin_op(i)
                kind = op[0]
                amb = _symbolic_mode.get()
                with op_watchdog(20):
                    if kind == "enter":
                        q = run.pool.queries[qid]
                        try:
                            if op[1] == "sym":
                                cm = symbolic_mode()
                            elif op[1] == "rule":
                                cm = rule_mode()
                            elif op[1] == "symq":
                                cm = symbolic_mode(q)
                            elif op[1] == "ruleq":
                                cm = rule_mode(q)
                            else:
                                cm = q
                            cm.__enter__()
                            frames.append((op[1], cm))
                        except Exception as e:
                            sim.event("enter-raised", type(e).__name__)
                    elif kind in ("leave", "raise"):
                        n = min(1 if kind == "leave" else op[1], len(frames))
                        for _ in range(n):
                            fk, cm = frames.pop()
                            try:
                                if kind == "leave":
                                    cm.__exit__(None, None, None)
                                else:
                                    try:
                                        raise PlannedError("planned")
                                    except PlannedError:
                                        cm.__exit__(*sys.exc_info())
                            except PlannedError:
                                pass
                            except Exception as e:
                                sim.event("exit-raised", type(e).__name__)
                    elif kind == "make":
                        if slot is None:
                            slot = run.start("s", qid)
                            self._step_probe(sim, frames)
                    elif kind == "adv":
                        if slot is not None and slot.state == "open":
                            self._step_probe(sim, frames)
                            run.advance(slot, 1)
                    elif kind == "drain_mixed":
                        # finish the evaluation; the last steps run outside any block after `k` more inside
                        if slot is None:
                            slot = run.start("s", qid)
                        k = op[1]
                        while slot.state == "open" and k > 0:
                            self._step_probe(sim, frames)
                            run.advance(slot, 1)
                            k -= 1
                        while frames:
                            fk, cm = frames.pop()
                            try:
                                cm.__exit__(None, None, None)
                            except Exception:
                                pass
                        run.advance(slot, None)
                        final = ("rows", "done" if slot.state == "done" else "exc:" + str(slot.exc),
                                 frozenset(freeze(r) for r in slot.rows))
                    elif kind == "eval" and final is None:
                        self._step_probe(sim, frames)
                        if style == "the":
                            r = run.the_eval(qid)
                            final = ("the", r[0], freeze(r[1]))
                        else:
                            o = run.full(qid)
                            final = ("rows", o.end if o.end == "done" else "exc:" + str(o.exc), o.rowset())
                sig.append((kind, repr(amb), len(frames)))
                states.add((style, repr(_symbolic_mode.get()), tuple(f[0] for f in frames),
                            slot.state if slot is not None else None, final is not None))
                sim.end_op()
                if sim.violations:
                    break
            if not sim.violations and final is not None:
                sim.count("probe:judged")
                if final != ref:
                    sim.violate("result-differs-from-outside-block", {
                        "style": style, "inside": _brief(final), "outside": _brief(ref)})
                elif _has_symbolic(final):
                    sim.violate("symbolic-value-delivered", {"inside": _brief(final)})
            sig.append(("final", final[1] if final else None))
        except SimBudget as e:
            sim.violate("no-result-within-budget", {"cap": str(e)})
        finally:
            while frames:
                fk, cm = frames.pop()
                try:
                    cm.__exit__(None, None, None)
                except BaseException:
                    pass
            for name, s in list(run.slots.items()):
                if s.it is not None:
                    try:
                        s.it.close()
                    except BaseException:
                        pass
                    s.it = None
            _symbolic_mode.set(None)
            del estack[:]
            run.finish()
            set_current(None)
        res.violations = sim.violations
        res.digest = sim.digest()
        res.counters = sim.counters
        res.signature = tuple(sig)
        res.nontrivial = (sim.counters.get("probe:step_inside_block", 0) > 0 and uses_user_code[0]
                          and sim.counters.get("probe:judged", 0) > 0)
        res.steps = sim.seq
        res.states = tuple(states)
        return res

    @staticmethod
    def _step_probe(sim, frames):
        if frames:
            sim.count("probe:step_inside_block")
            amb = _symbolic_mode.get()
            if amb is not None:
                sim.count("probe:ambient_" + amb.name.lower())

    def shrink_candidates(self, plan):
        for c in shrink_query_plan(plan):
            if c["pool"]["queries"]:
                yield c
        if plan["style"] == "steps":
            c = copy.deepcopy(plan)
            c["style"] = "full"
            c["ops"] = [["eval"] if o[0] == "make" else o for o in c["ops"] if o[0] not in ("adv", "drain_mixed")]
            yield c

    def normalise(self, plan):
        ops = plan["ops"]
        if plan["style"] == "steps":
            if not any(o[0] == "drain_mixed" for o in ops):
                ops.append(["drain_mixed", 0])
        elif not any(o[0] == "eval" for o in ops):
            ops.append(["eval"])
        return plan


def _count_flavour(sim, q, style):
    sim.count("probe:style_" + style)
    if q.get("head"):
        sim.count("probe:infer_head")
    if q.get("rule"):
        sim.count("probe:add_rule")
    s = repr(q)
    if "'cp'" in s or "'ht'" in s:
        sim.count("probe:class_predicate")
    if "'fp'" in s:
        sim.count("probe:function_predicate")


def _is_symbolic_label(x):
    if isinstance(x, tuple):
        if len(x) == 2 and x[0] == "?":
            return True
        return any(_is_symbolic_label(e) for e in x)
    return False


def _has_symbolic(final):
    return "SYMBOLIC" in repr(final[2])


def _brief(f):
    v = f[2]
    if isinstance(v, frozenset):
        v = sorted(map(repr, v))[:10]
    return {"kind": f[0], "end": f[1], "value": repr(v)[:600]}


PROP = C09()
