"""Property modules. Each exposes PROP, an instance of a subclass of `Prop`."""
from __future__ import annotations

import importlib
from typing import Any, Callable, Dict, Iterator, List, Optional

from ..runner import Result

CLAIMED = ["C04", "C05", "C06", "C07", "C08", "C09", "C14", "C20"]


def load(prop_id: str):
    mod = importlib.import_module(f"sim.props.{prop_id.lower()}")
    return mod.PROP


class Prop:
    id = "C00"
    level = "exploration"
    title = ""
    # tier -> list of (campaign name, number of runs, wall cap seconds)
    campaigns: Dict[str, List[tuple]] = {"quick": [("main", 1000, 40)], "thorough": [("main", 20000, 600)]}
    chunk = 50
    # counters that must be > 0 at the end of a campaign, else the check reports "vacuous" (exit 2)
    vacuity: Dict[str, List[str]] = {}
    rule = ""
    assumptions: List[str] = []
    components = {"real": ["everything under src/entity_query_language except rendering/visualisation"],
                  "stub": []}
    fault_counters: List[str] = []

    def gen(self, rng, tier: str, campaign: str) -> dict:
        raise NotImplementedError

    def execute(self, plan: dict) -> Result:
        raise NotImplementedError

    # ---------------------------------------------------------------- shrinking
    def shrink_candidates(self, plan: dict) -> Iterator[dict]:
        """Property-specific simplifications beyond dropping ops (override)."""
        return iter(())

    def normalise(self, plan: dict) -> dict:
        """Make a plan well-formed again after ops were dropped (override if needed)."""
        return plan

    # ---------------------------------------------------------------- evidence
    def evidence_extra(self, merged: dict) -> dict:
        return {}
