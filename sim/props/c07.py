"""C07 — Evaluation is demand-driven and consumes lazily supplied domains only as needed (DESIGN §4 C07).

The simulator owns the reader: every pull and every delivery carries the global event sequence number, so
"how much of the stream had been pulled when result r was delivered" is read off the pull log at that event.
"""
from __future__ import annotations

import copy

from .. import libpath  # noqa: F401
from ..kernel import Sim, SimBudget, set_current, op_watchdog
from ..runner import Result
from ..spec import BuildError, Pool
from ..qexec import QRun, freeze, TWIN_KINDS
from .. import gen as G
from .. import world as W
from . import Prop
from .c04 import shrink_query_plan


class C07(Prop):
    id = "C07"
    level = "fault_enumeration"
    title = "Evaluation is demand-driven and consumes lazily supplied domains only as needed"
    campaigns = {"quick": [("sampled", 16000, 60), ("enumerated", 1500, 60), ("known:falsy_operand", 3000, 40)],
                 "thorough": [("sampled", 1200000, 1500), ("enumerated", 80000, 1500),
                              ("known:falsy_operand", 60000, 400)]}
    chunk = 20
    rule = ("single-variable `an` queries (let(T, stream) / T(From(stream)) / T(From(stream), f=v), mixed-type streams, "
            "condition trees over that variable) whose domain is a simulator-owned one-shot generator, one-shot "
            "iterator object or re-iterable logging collection; histories of 1-4 evaluations each taking k results then "
            "close / drop / run to exhaustion; stream faults: raise at element j, early end. Campaign 'enumerated' "
            "executes, per sampled (query, stream), EVERY abandonment point k1 of the first evaluation (x every k2 of a "
            "second one in the thorough tier) followed by a full evaluation. Oracles at the event they concern: nothing "
            "is pulled and no user code runs before the first next(); at delivery of the element at source position p: "
            "pulls == max(pulls before this evaluation, p+1); no element pulled twice, iter() at most once; every "
            "exhaustive evaluation delivers the sequence a list-domain twin delivers. Non-trivial = an evaluation "
            "delivered >= 1 row from the memoised prefix and >= 1 row that needed a fresh pull, or a fault fired; "
            "distinct = distinct (op, delivered, pulled) sequences")
    assumptions = [
        "streams deliver distinct objects (what a repeated object in a stream should do is C04's duplicate clause)",
        "after an injected stream fault only 'no element pulled twice' and 'no pull ahead of demand' are asserted",
        "multi-variable queries are only held to 'no work before the first next()' (the statement's first sentence)",
    ]
    components = {"real": ["everything under src/entity_query_language except rendering"],
                  "stub": ["the lazily supplied domain (simulator-owned reader), user data classes and predicates"]}
    vacuity = {"quick": ["probe:delivered_from_memoised_prefix", "probe:delivered_after_fresh_pull",
                         "probe:abandoned_then_reevaluated", "probe:type_filter_skipped_element",
                         "probe:kind_gen", "probe:kind_iterobj", "probe:kind_logcol", "fault_fired:F5_stream_raise",
                         "probe:multi_var_no_work_checked", "probe:exhaustive_vs_twin", "probe:evaluated_inside_block"]}

    # ------------------------------------------------------------------ generation
    def _gen_query(self, rng, tier, falsy=False):
        cfg = G.gen_config(rng, tier, n_vars=1, n_queries=1)
        # attribute values that are falsy make the engine drop bindings inside operands (a pure-semantics defect,
        # C19) and re-find them later through another branch, which shows up here as pulling ahead of demand:
        # recorded as KF-C07-1 and kept in its own campaign
        cfg["alphabet"] = "falsy" if falsy else "truthy"
        cfg["vocab"] = [v for v in cfg["vocab"] if v in ("in", "idx", "call", "fp", "cp", "ht", "cmp2")]
        # sizes cross the thresholds hard-coded in the library (the cartesian-product warning looks at > 20
        # memoised values)
        cfg["n_obj"] = rng.choice([2, 3, 4, 5, 6, 7, 8, 10, 12, 16, 24, 30] if tier == "quick" else
                                  [2, 3, 4, 5, 6, 8, 10, 12, 16, 20, 24, 33, 48])
        cfg["types"] = rng.choice([["Item"], ["Item", "Gadget"], ["Item", "Gadget", "Widget"]])
        cfg["dups"] = False
        world = G.gen_world(rng, cfg)
        labels = [o["l"] for o in world["objects"]]
        if not falsy:
            for o in world["objects"]:
                if not o["f"]["kids"]:
                    o["f"]["kids"] = [rng.choice(labels)]      # an empty list is a falsy operand value too
        world["domains"] = {"d0": rng.sample(labels, rng.randint(1, len(labels)) if rng.random() < 0.6
                                             else len(labels))}
        cg = G.CondGen(rng, cfg, world, ["x"], {})
        conds = [cg.cond(["x"], cfg["depth"]) for _ in range(rng.choice([0, 1, 1, 2]))]
        # single-argument / literal-argument predicates only (one variable)
        var = {"n": "x", "t": rng.choice([t for t in cfg["types"] if t != "Widget"]), "dom": "d0",
               "kind": rng.choice(["gen", "iterobj", "logcol"]), "form": rng.choice(["let", "From", "From", "kw"])}
        if var["form"] == "kw":
            var["kw"] = {rng.choice(["a", "b"]): rng.choice(world["vals"])}
        pool = {"vars": [var], "queries": [{"id": "q0", "quant": "an", "shape": "entity", "sel": ["x"],
                                            "conds": conds}]}
        if G.pool_regions(pool):
            pool["queries"][0]["conds"] = [c for c in conds if not G.query_regions({"conds": [c]})]
        return cfg, world, pool

    def gen(self, rng, tier, campaign):
        cfg, world, pool = self._gen_query(rng, tier, falsy=campaign.startswith("known:"))
        n = len(world["domains"]["d0"])
        plan = {"world": world, "pool": pool, "cfg": cfg}
        if campaign == "enumerated":
            plan["enumerate"] = "pairs" if tier == "thorough" else "single"
            plan["ops"] = []
            return plan
        ops = []
        for _ in range(rng.randint(1, 4)):
            k = rng.choice([None, 0, 1, 1, 2, 3, rng.randint(0, n), max(0, n - 1), max(0, n - 2), 21, 22])
            op = ["eval", k, rng.choice(["close", "drop", "park"]) if k is not None else "exhaust"]
            if rng.random() < 0.3:
                # the consumer advances the iterator from inside a block (also one entered with this very query)
                op.append(rng.choice(["sym", "rule", "symq", "ruleq", "q"]))
            ops.append(op)
        if rng.random() < 0.6:
            ops.append(["eval", None, "exhaust"])
        if rng.random() < 0.25:
            plan["stream_fault"] = {"fail_at": rng.randint(0, n - 1)} if rng.random() < 0.7 else \
                {"stop_at": rng.randint(0, n - 1)}
        if rng.random() < 0.15:
            # a second, multi-variable query: only "no work before the first next()" is asserted for it
            world["domains"]["d1"] = rng.sample([o["l"] for o in world["objects"]], min(2, len(world["objects"])))
            pool["vars"].append({"n": "y", "t": "Item", "dom": "d1", "kind": rng.choice(["list", "gen"]), "form": "let"})
            pool["queries"].append({"id": "q1", "quant": "an", "shape": "set_of", "sel": ["x", "y"],
                                    "conds": [["cmp", ["attr", ["v", "x"], "a"], rng.choice(["<", "==", ">="]),
                                               ["attr", ["v", "y"], "b"]]]})
            ops.insert(rng.randint(0, len(ops)), ["lazy_start", "q1"])
        plan["ops"] = ops
        return plan

    # ------------------------------------------------------------------ execution
    def execute(self, plan):
        if plan.get("enumerate"):
            return self._execute_enumerated(plan)
        return self._execute_history(plan, plan["ops"])

    def _execute_enumerated(self, plan):
        """Every abandonment point of the first evaluation (and of a second one), then a full evaluation."""
        # dry run: how many rows does the query deliver?
        probe = self._execute_history(plan, [["eval", None, "exhaust"]])
        total = Result()
        total.digest = probe.digest
        if probe.skipped or probe.violations:
            return probe
        R = probe.counters.get("rows_last_eval", 0)
        digests = [probe.digest]
        pairs = plan["enumerate"] == "pairs"
        sigs = []
        for k1 in range(0, R + 1):
            for how in ("close", "drop"):
                seconds = [None] + (list(range(0, min(R, 12) + 1)) if pairs else [])
                for k2 in seconds:
                    ops = [["eval", k1, how]]
                    if k2 is not None:
                        ops.append(["eval", k2, "close"])
                    ops.append(["eval", None, "exhaust"])
                    r = self._execute_history(plan, ops)
                    total.counters.update(r.counters)
                    total.counters["enumerated_crash_points"] += 1
                    total.steps += r.steps
                    digests.append(r.digest)
                    sigs.append(r.signature)
                    if r.violations:
                        # report as a plain history plan so that replay and shrinking work on it directly
                        total.violations = r.violations
                        total.replan = {k: v for k, v in plan.items() if k != "enumerate"}
                        total.replan["ops"] = ops
                        total.signature = tuple(sigs)
                        total.digest = _h(digests)
                        return total
        total.signature = tuple(sigs)
        total.nontrivial = R > 0
        total.digest = _h(digests)
        total.counters["probe:enumerated_queries"] += 1
        return total

    def _execute_history(self, plan, ops):
        sim = Sim("C07")
        set_current(sim)
        res = Result()
        sf = plan.get("stream_fault")
        try:
            run = QRun(sim, plan, stream_faults={"x": sf} if sf else None)
            twin = Pool(run.world, plan["pool"], domain_kinds=TWIN_KINDS, only=["q0"])
        except BuildError:
            set_current(None)
            res.skipped = True
            res.counters["build_failed"] += 1
            res.digest = sim.digest()
            return res
        stream = run.pool.streams["x"]
        items = [W.lab(o) for o in stream.items]
        pos = {l: i for i, l in enumerate(items)}
        var_t = W.CLASSES[plan["pool"]["vars"][0]["t"]]
        sim.count("probe:kind_" + plan["pool"]["vars"][0]["kind"])
        sig = []
        states = set()
        faulted = False
        try:
            ref = run.full("q0", pool=twin, quiet=True)
            comparable = ref.end == "done"
            # clause 1: nothing happened between construction and now
            if stream.pulls or stream.iters > 1 or sim.cb_total:
                sim.violate("work-before-first-request", {"when": "construction", "pulls": len(stream.pulls),
                                                          "callbacks": sim.cb_total})
            n_eval = 0
            for i, op in enumerate(ops):
                sim.begin_op(i)
                if sim.violations:
                    break
                with op_watchdog(20):
                    if op[0] == "lazy_start":
                        cb0, p0 = sim.cb_total, len(stream.pulls)
                        other = [s for n, s in run.pool.streams.items() if n != "x"]
                        o0 = [len(s.pulls) for s in other]
                        s = run.start(f"_l{i}", op[1])
                        sim.count("probe:multi_var_no_work_checked")
                        if sim.cb_total != cb0 or len(stream.pulls) != p0 or [len(t.pulls) for t in other] != o0:
                            sim.violate("work-before-first-request", {"when": "evaluate() of " + op[1],
                                                                      "callbacks": sim.cb_total - cb0})
                        run.close(s)
                        run.drop(f"_l{i}")
                        sig.append(("lazy_start",))
                        continue
                    k, how = op[1], op[2]
                    ctx_kind = op[3] if len(op) > 3 else None
                    n_eval += 1
                    before = len(stream.pulls)
                    cb0 = sim.cb_total
                    cm = None
                    if ctx_kind:
                        from entity_query_language import symbolic_mode, rule_mode
                        q = run.pool.queries["q0"]
                        cm = {"sym": symbolic_mode, "rule": rule_mode, "symq": lambda: symbolic_mode(q),
                              "ruleq": lambda: rule_mode(q), "q": lambda: q}[ctx_kind]()
                        cm.__enter__()
                        sim.count("probe:evaluated_inside_block")
                    slot = run.start(f"_e{i}", "q0")
                    if len(stream.pulls) != before or sim.cb_total != cb0:
                        sim.violate("work-before-first-request", {"when": "evaluate()", "evaluation": n_eval,
                                                                  "pulls": len(stream.pulls) - before,
                                                                  "callbacks": sim.cb_total - cb0})
                        break
                    delivered = 0
                    from_prefix = fresh = 0
                    while slot.state == "open" and (k is None or delivered < k):
                        pulls0 = len(stream.pulls)
                        if not run._next(slot):
                            break
                        delivered += 1
                        r = slot.rows[-1]
                        p = pos.get(r)
                        if p is None:
                            sim.violate("delivered-unknown-object", {"row": repr(r)})
                            break
                        want = max(before, p + 1)
                        if len(stream.pulls) != want:
                            sim.violate("pull-count-at-delivery", {
                                "evaluation": n_eval, "delivered": r, "source_position": p,
                                "pulled_so_far": len(stream.pulls), "expected": want,
                                "pulled_before_this_evaluation": before, "stream": items,
                                "faulted_before": faulted})
                            break
                        if len(stream.pulls) == pulls0:
                            from_prefix += 1
                        else:
                            fresh += 1
                    if cm is not None:
                        try:
                            cm.__exit__(None, None, None)
                        except Exception:
                            pass
                        cm = None
                    if sim.violations:
                        break
                    if from_prefix:
                        sim.count("probe:delivered_from_memoised_prefix", from_prefix)
                    if fresh:
                        sim.count("probe:delivered_after_fresh_pull", fresh)
                    if n_eval > 1 and sig and sig[-1][0] == "eval" and sig[-1][2] in ("closed", "dropped", "parked"):
                        sim.count("probe:abandoned_then_reevaluated")
                    if slot.state == "failed":
                        if slot.exc == "SimFault":
                            faulted = True
                            sim.count("fault_fired:F5_stream_raise")
                        else:
                            sim.count("eval_raised:" + str(slot.exc))
                    exhausted = slot.state == "done"
                    pulls_at_abandon, cb_at_abandon = len(stream.pulls), sim.cb_total
                    if slot.state == "open":
                        if how == "close":
                            run.close(slot)
                            run.drop(f"_e{i}")
                            sim.count("fault_fired:F1_cancel")
                        elif how == "drop":
                            run.drop(f"_e{i}")
                            sim.count("fault_fired:F2_orphan")
                        else:
                            run.park(f"_e{i}")
                            run.collect()
                            sim.count("fault_fired:F2_orphan_cycle")
                    if len(stream.pulls) != pulls_at_abandon:
                        # closing / dropping / collecting an abandoned evaluation is not a request for a result
                        sim.violate("pull-without-demand", {"evaluation": n_eval, "how": how, "delivered": delivered,
                                                            "pulled_before_finalisation": pulls_at_abandon,
                                                            "pulled_after": len(stream.pulls), "stream": items})
                        break
                    rows = list(slot.rows)
                    sim.counters["rows_last_eval"] = len(rows)
                    sig.append(("eval", delivered, slot.state, len(stream.pulls)))
                    states.add((n_eval, slot.state, min(len(stream.pulls), 12), len(stream.pulls) == len(items),
                                ctx_kind, how, plan["pool"]["vars"][0]["kind"], plan["pool"]["vars"][0]["form"]))
                    # clause 3: nothing pulled twice, iter() at most once
                    if len(set(stream.pulls)) != len(stream.pulls):
                        sim.violate("element-pulled-twice", {"pulls": list(stream.pulls)})
                        break
                    if stream.iters > 1:
                        sim.violate("source-iterated-twice", {"iters": stream.iters})
                        break
                    if any(isinstance(o, W.Item) and not isinstance(o, var_t) for o in stream.items[:len(stream.pulls)]):
                        sim.count("probe:type_filter_skipped_element")
                    # clause 4: an exhaustive evaluation delivers what the list-domain twin delivers
                    if exhausted and comparable and not faulted and not (sf and "stop_at" in sf):
                        sim.count("probe:exhaustive_vs_twin")
                        if [freeze(r) for r in rows] != [freeze(r) for r in ref.rows]:
                            sim.violate("exhaustive-sequence-differs-from-list-twin", {
                                "evaluation": n_eval, "stream_backed": [repr(r) for r in rows],
                                "list_twin": [repr(r) for r in ref.rows]})
                            break
                sim.end_op()
        except SimBudget as e:
            sim.violate("no-result-within-budget", {"cap": str(e)})
        finally:
            run.finish()
            set_current(None)
        res.violations = sim.violations
        res.digest = sim.digest()
        res.counters = sim.counters
        res.signature = tuple(sig)
        res.nontrivial = (sim.counters.get("probe:delivered_from_memoised_prefix", 0) > 0
                          and sim.counters.get("probe:delivered_after_fresh_pull", 0) > 0) or faulted
        res.steps = sim.seq
        res.states = tuple(states)
        return res

    def shrink_candidates(self, plan):
        if plan.get("enumerate"):
            return
        for c in shrink_query_plan(plan):
            if c["pool"]["vars"] and c["pool"]["vars"][0]["n"] == "x" and \
                    c["pool"]["vars"][0].get("kind") in ("gen", "iterobj", "logcol") and \
                    any(q["id"] == "q0" for q in c["pool"]["queries"]) and "d0" in c["world"]["domains"]:
                yield c
        if plan.get("stream_fault"):
            c = copy.deepcopy(plan)
            del c["stream_fault"]
            yield c

    def normalise(self, plan):
        return plan


def _h(ds):
    import hashlib
    return hashlib.sha256("".join(ds).encode()).hexdigest()


PROP = C07()
