"""C06 — `the` returns the unique solution or raises, consistently with `an` (DESIGN §4 C06)."""
from __future__ import annotations

import copy

from .. import libpath  # noqa: F401
from ..kernel import Sim, SimBudget, set_current, op_watchdog
from ..runner import Result
from ..spec import BuildError
from ..qexec import QRun, freeze
from .. import gen as G
from . import Prop
from .c04 import shrink_query_plan


class C06(Prop):
    id = "C06"
    level = "exploration"
    title = "`the` returns the unique solution or raises, consistently with `an`"
    campaigns = {"quick": [("main", 60000, 60), ("known:shared_conditions_suspended_iterator_warm_cache", 2000, 40)],
                 "thorough": [("main", 1500000, 1500),
                              ("known:shared_conditions_suspended_iterator_warm_cache", 60000, 400)]}
    chunk = 50
    rule = ("seeded descriptions in which every variable is selected (entity(x, c(x)) / set_of([x,y], c(x,y)) with "
            "joins, negation, predicates, nested sub-queries) over 1-4 element domains so that 0, 1 and >= 2 solutions "
            "are all frequent; `the(d)` and `an(d)` built over shared variables or over separate ones; histories of "
            "an-full / an-take-k-close / the (x1-4) with the raised exception held for 0, 1 or 3 further ops. "
            "Oracle: outcome class of every the(d).evaluate() vs the row count n of a never-evaluated `an` twin "
            "(n=1: returns the twin's row; n>=2: MultipleSolutionFound; n=0: NoSolutionFound; anything else is a "
            "violation), and equal outcome on every re-evaluation. Non-trivial = a `the` evaluation was judged after "
            ">= 1 earlier `the` of the same description ended by raising; distinct = distinct (op, outcome) sequences")
    assumptions = [
        "differential against `an` of the same engine: descriptions whose `an` twin raises or delivers the same row "
        "twice are not judged (what `the` should do with duplicate rows is not stated)",
        "explicit non-empty list domains; evaluation outside any block",
    ]
    components = {"real": ["everything under src/entity_query_language except rendering"],
                  "stub": ["user data classes, predicates, domains (simulator-owned)"]}
    vacuity = {"quick": ["probe:class_0", "probe:class_1", "probe:class_many", "probe:reeval_after_raise",
                         "probe:held_exception", "probe:set_of_the", "probe:shared_variables", "probe:separate_variables",
                         "probe:an_iterator_left_suspended", "probe:shared_condition_objects"]}

    def gen(self, rng, tier, campaign):
        cfg = G.gen_config(rng, tier, all_selected=True)
        cfg["vocab"] = [v for v in cfg["vocab"] if v not in ("forall", "kw")]
        cfg["n_queries"] = 1
        cfg["kinds"] = ["list", "list", "tuple", "gen", "iterobj"]
        cfg["n_obj"] = rng.randint(1, 5)
        world, pool = G.gen_world_and_pool(rng, cfg)
        # small domains make exactly-one outcomes frequent
        for d in world["domains"]:
            world["domains"][d] = world["domains"][d][: rng.choice([1, 2, 2, 3, 4])]
        q = pool["queries"][0]
        used = set(q["sel"])
        t = copy.deepcopy(q)
        t["id"] = "t0"
        t["quant"] = "the"
        shared = rng.random() < 0.5
        if shared and rng.random() < 0.4:
            if rng.random() < 0.6:
                cg = G.CondGen(rng, cfg, world, list(q["sel"]), {})
                cand = {"conds": [["or", cg.atom(list(q["sel"])), cg.atom(list(q["sel"]))]]}
                if not G.query_regions(cand):
                    q["conds"] = cand["conds"]
                    t["conds"] = copy.deepcopy(cand["conds"])
            t["conds_from"] = "q0"      # one condition object used by both the `an` and the `the` query
        pool["queries"].append(t)
        ops = []
        for _ in range(rng.randint(1, 7)):
            r = rng.random()
            if r < 0.2:
                ops.append(["an_full"])
            elif r < 0.35:
                ops.append(["an_take", rng.choice([0, 1, 1, 2])])
            elif r < 0.45:
                # an `an` iterator left suspended (still referenced, never advanced again) while `the` is evaluated
                ops.append(["an_keep", rng.choice([1, 1, 2, 3])])
            else:
                ops.append(["the", rng.choice([0, 0, 1, 3])])
        ops.append(["the", 0])
        warm = campaign == "known:shared_conditions_suspended_iterator_warm_cache"
        if warm:
            t["conds_from"] = "q0"
            shared = True
            if rng.random() < 0.5:
                ops = [rng.choice([["the", 0], ["an_full"]]), ["an_keep", rng.choice([1, 2])]] + ops[:3] + [["the", 0]]
            else:
                ops = [["an_keep", rng.choice([1, 2])]] + [o for o in ops if o[0] != "an_keep"][:3] + [["the", 0]]
        elif t.get("conds_from"):
            # condition objects shared by the `an` and the `the` query: an `an` iterator may be left suspended only
            # while the operator caches are still cold, i.e. as the very first evaluation (warm: KF-C06-1)
            # ... and only when the shared condition is one flat disjunction of atoms: then every de-duplicating node
            # has a different parent in the two queries and the engine keeps their state apart (nested: KF-C06-1)
            ops = [o for o in ops if o[0] != "an_keep"]
            if _flat_disjunction(q) and rng.random() < 0.8:
                ops.insert(0, ["an_keep", rng.choice([1, 1, 2])])
        return {"world": world, "pool": pool, "ops": ops, "cfg": cfg, "shared": shared}

    def execute(self, plan):
        sim = Sim("C06")
        sim.log_callbacks = False
        set_current(sim)
        res = Result()
        try:
            run = QRun(sim, plan)
            # `an` over the same variables as `the` (shared) or over its own fresh variables (separate pool)
            an_pool = run.pool if plan.get("shared") else run.twin(only=["q0"])
            ref_pool = run.twin(only=["q0"])
            if an_pool is None or ref_pool is None:
                raise BuildError("twin")
        except BuildError:
            set_current(None)
            res.skipped = True
            res.counters["build_failed"] += 1
            res.digest = sim.digest()
            return res
        sig = []
        states = set()
        try:
            ref = run.full("q0", pool=ref_pool, quiet=True)
            judged_any = False
            if ref.end != "done" or len(ref.rows) != len(ref.rowset()):
                sim.count("probe:skipped_reference_not_comparable")
                res.skipped = True
            else:
                n = len(ref.rows)
                want = "value" if n == 1 else ("MultipleSolutionFound" if n >= 2 else "NoSolutionFound")
                sim.count("probe:class_" + ("1" if n == 1 else "many" if n >= 2 else "0"))
                sim.count("probe:shared_variables" if plan.get("shared") else "probe:separate_variables")
                if plan["pool"]["queries"][0].get("shape") == "set_of":
                    sim.count("probe:set_of_the")
                held = []
                first = None
                raised_before = False
                for i, op in enumerate(plan["ops"]):
                    sim.begin_op(i)
                    held = [(t, e) for (t, e) in held if t > i]
                    with op_watchdog(20):
                        if op[0] == "an_full":
                            o = run.full("q0", pool=an_pool)
                            sig.append(("an_full", o.end))
                        elif op[0] == "an_keep":
                            s = run.start(f"_k{i}", "q0", pool=an_pool)
                            k = run.advance(s, op[1])
                            sim.count("probe:an_iterator_left_suspended")
                            if "conds_from" in plan["pool"]["queries"][1]:
                                sim.count("probe:shared_condition_objects")
                            sig.append(("an_keep", k, s.state))
                        elif op[0] == "an_take":
                            s = run.start(f"_a{i}", "q0", pool=an_pool)
                            k = run.advance(s, op[1])
                            run.close(s)
                            run.drop(f"_a{i}")
                            sig.append(("an_take", k))
                        else:
                            r = run.the_eval("t0")
                            got = "value" if r[0] == "value" else r[1]
                            sig.append(("the", got))
                            judged_any = True
                            if raised_before:
                                sim.count("probe:reeval_after_raise")
                            if held:
                                sim.count("probe:held_exception")
                            if got != want:
                                sim.violate("outcome-class", {"solutions_of_an_twin": n, "expected": want, "got": got,
                                                              "twin_rows": ref.brief()})
                            elif got == "value" and freeze(r[1]) != freeze(ref.rows[0]):
                                sim.violate("value", {"expected": repr(ref.rows[0]), "got": repr(r[1])})
                            elif first is not None and first != got:
                                sim.violate("re-evaluation", {"first": first, "now": got})
                            if first is None:
                                first = got
                            if r[0] == "exc":
                                raised_before = True
                                if r[1] == "MultipleSolutionFound":
                                    sim.count("fault_fired:F4_intrinsic_abort")
                                if op[1] > 0:
                                    held.append((i + op[1] + 1, r[2]))
                    states.add((op[0], want, first, raised_before, len(held), bool(plan.get("shared")),
                                sum(1 for sl in run.slots.values() if sl.it is not None and sl.state == "open")))
                    sim.end_op()
                    if sim.violations:
                        break
            res.nontrivial = judged_any and sim.counters.get("probe:reeval_after_raise", 0) > 0
        except SimBudget as e:
            sim.violate("no-result-within-budget", {"cap": str(e)})
        finally:
            run.finish()
            set_current(None)
        res.violations = sim.violations
        res.digest = sim.digest()
        res.counters = sim.counters
        res.signature = tuple(sig)
        res.steps = sim.seq
        res.states = tuple(states)
        return res

    def shrink_candidates(self, plan):
        for c in shrink_query_plan(plan):
            # keep the `the` twin in sync with the `an` description
            qs = c["pool"]["queries"]
            q0 = [q for q in qs if q["id"] == "q0"]
            if not q0:
                continue
            t = copy.deepcopy(q0[0])
            t["id"] = "t0"
            t["quant"] = "the"
            old_t = [q for q in plan["pool"]["queries"] if q["id"] == "t0"]
            if old_t and old_t[0].get("conds_from"):
                t["conds_from"] = "q0"
            c["pool"]["queries"] = [q0[0], t]
            yield c
        tq = [q for q in plan["pool"]["queries"] if q["id"] == "t0"]
        if tq and tq[0].get("conds_from"):
            c = copy.deepcopy(plan)
            for q in c["pool"]["queries"]:
                q.pop("conds_from", None)
            yield c
        if plan.get("shared"):
            c = copy.deepcopy(plan)
            c["shared"] = False
            yield c


def _flat_disjunction(q):
    conds = q.get("conds", [])
    if len(conds) != 1 or conds[0][0] != "or":
        return False
    return all(c[0] in ("cmp", "in", "fp", "cp", "ht") for c in conds[0][1:])


PROP = C06()
