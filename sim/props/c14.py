"""C14 — A variable without a domain ranges over exactly the live registry of instances (DESIGN §4 C14).

Reference model: the harness's own construction log (a list).  Classes are built per run.
"""
from __future__ import annotations

import copy
import dataclasses

from .. import libpath  # noqa: F401
from ..kernel import Sim, SimBudget, set_current, op_watchdog, cb
from ..reset import reset
from ..runner import Result
from . import Prop

from entity_query_language import symbol, let, an, entity, infer, symbolic_mode, rule_mode, From
from entity_query_language.symbolic import SymbolicExpression, Variable, _symbolic_mode


BUILT = []        # instances constructed by user-defined __new__ methods of other classes (drained into the model)


def _make_class(spec, classes):
    name = spec["name"]
    base = classes[spec["base"]] if spec.get("base") else object
    extra = spec.get("extra_field")
    bases = (base,)
    if spec.get("base2") and spec["base2"] in classes and classes[spec["base2"]] is not base \
            and not issubclass(base, classes[spec["base2"]]) and not issubclass(classes[spec["base2"]], base):
        bases = (base, classes[spec["base2"]])       # multiple inheritance: class C(A, B)

    if spec["style"] == "dataclass":
        ns = {"__annotations__": {}}
        if not spec.get("base"):
            ns["__annotations__"] = {"f0": object, "f1": object}
            ns["f1"] = 7
        if extra:
            ns["__annotations__"][extra] = object
            ns[extra] = 9

        def __post_init__(self, _n=name):
            cb("init", _n, None)
        ns["__post_init__"] = __post_init__
        cls = type(name, bases, ns)
        cls = dataclasses.dataclass(eq=spec.get("eq", False), repr=False)(cls)
    else:
        if extra:
            def __init__(self, f0, f1=7, _n=name, **kw):
                cb("init", _n, None)
                self.f0, self.f1 = f0, f1
                setattr(self, extra, kw.get(extra, 9))
        else:
            def __init__(self, f0, f1=7, _n=name):
                cb("init", _n, None)
                self.f0, self.f1 = f0, f1
        cls = type(name, bases, {"__init__": __init__})
    # user-defined __new__ only on decorated classes: symbol() wraps whatever __new__ the class defines, whereas an
    # undecorated subclass with its own __new__ simply bypasses the hybrid constructor (user code, not the library)
    new_style = spec.get("new") if spec.get("decorated") else None
    if new_style == "super":
        # a user __new__ that delegates to the parent's (possibly already hybrid) constructor
        def __new__(c, *a, **k):
            return super(cls, c).__new__(c)
        cls.__new__ = __new__
    elif new_style == "builder" and spec.get("builds") in classes:
        # a user __new__ that assembles parts: it concretely constructs instances of ANOTHER @symbol class
        part_cls = classes[spec["builds"]]

        def __new__(c, *a, **k):
            inst = super(cls, c).__new__(c)
            for n in range(2):
                BUILT.append(part_cls(f0=9000 + len(BUILT)))
            return inst
        cls.__new__ = __new__
    elif new_style == "singleton":
        # a flyweight constructor: one instance per class, returned again on every construction
        def __new__(c, *a, **k):
            inst = c.__dict__.get("_the_one")
            if inst is None:
                inst = super(cls, c).__new__(c)
                c._the_one = inst
            return inst
        cls.__new__ = __new__
    if spec.get("decorated"):
        cls = symbol(cls)
        if spec.get("double_symbol"):
            cls = symbol(cls)        # decorated twice (e.g. once directly and once by a framework)
    return cls


class C14(Prop):
    id = "C14"
    level = "exploration"
    title = "A variable without a domain ranges over exactly the live registry of instances"
    campaigns = {"quick": [("main", 60000, 60)], "thorough": [("main", 1500000, 1800)]}
    chunk = 100
    rule = ("per-run class forests (decorated roots, decorated and undecorated subclasses, dataclass and hand-written "
            "__init__, fields with and without defaults); histories of concrete construction (positional / keyword / "
            "defaults), symbolic construction inside symbolic_mode/rule_mode, rule inference whose head builds "
            "instances, registry clearing, no-domain queries with fresh variables (let(T) / T()), and queries "
            "overlapped with constructions (take k, construct, drain). Oracle: identity multiset delivered by a query "
            "started in a quiescent state == the harness's own construction log filtered by isinstance, each once; "
            "overlapped evaluations: delivered is a sub-multiset of the log at the end and a super-multiset of the "
            "log at the start; symbolic construction adds nothing, runs no __init__ and returns an expression. "
            "Non-trivial = a judged query saw >= 2 instances of >= 2 classes incl. a subclass, or an inferred "
            "instance; distinct = distinct (op, outcome) sequences")
    assumptions = [
        "registry clearing is the sequence the repository's own test fixture uses (clear every per-class store, then "
        "the registry dict)",
        "a no-domain variable is evaluated for the first time right after it is declared (what a variable declared "
        "earlier or evaluated before should see later is reported by the separate 'stale' probes, not judged: the "
        "statement says 'so far' without fixing the instant)",
    ]
    components = {"real": ["@symbol / hybrid constructor / Variable._cache_ / no-domain variable evaluation / rule "
                           "inference and everything below"],
                  "stub": ["user classes (built per run by the simulator; every __init__ is an event)"]}
    vacuity = {"quick": ["probe:query_judged", "probe:undecorated_subclass_instance_seen", "probe:inferred_instance_queried",
                         "probe:symbolic_construction_checked", "probe:query_after_clear", "probe:overlap_judged",
                         "probe:manual_init_class", "probe:dataclass_class", "probe:parent_query_sees_subclass",
                         "probe:abandoned_registry_query", "probe:kwargs_filtered_query",
                         "probe:many_instances_constructed", "probe:multiple_inheritance_class",
                         "probe:declared_earlier_query_judged", "probe:constructor_returned_existing_instance",
                         "probe:user_defined_new", "probe:instance_built_inside_user_new"]}

    # ------------------------------------------------------------------ generation
    def gen(self, rng, tier, campaign):
        n_cls = rng.randint(1, 6)
        classes = []
        for i in range(n_cls):
            base = None
            if classes and rng.random() < 0.65:
                base = rng.choice(classes)["name"]
            style = rng.choice(["dataclass", "manual"]) if base is None else None
            if base is not None:
                style = next(c for c in classes if c["name"] == base)["style"]
            base2 = None
            if base is not None and len(classes) >= 2 and rng.random() < 0.2:
                cands = [c["name"] for c in classes if c["name"] != base and c["style"] == style]
                base2 = rng.choice(cands) if cands else None
            new_style = rng.choice([None, None, None, None, None, "super", "singleton", "builder"])
            builds = rng.choice([c["name"] for c in classes]) if classes else None
            classes.append({"name": f"K{i}", "base": base, "base2": base2, "style": style, "new": new_style, "builds": builds,
                            "double_symbol": rng.random() < 0.08,
                            "decorated": True if base is None else rng.random() < 0.5,
                            "eq": rng.random() < 0.4,
                            "extra_field": (f"g{i}" if base is not None and rng.random() < 0.3 else None)})
        names = [c["name"] for c in classes]
        ops = []
        early = []
        n_ops = rng.randint(2, 14 if tier == "quick" else 24)
        val = 0
        for _ in range(n_ops):
            r = rng.random()
            val += 1
            if r < 0.05:
                ops.append(["construct_many", rng.choice(names), rng.choice([5, 9, 17, 33]), val * 1000])
            elif r < 0.4:
                ops.append(["construct", rng.choice(names), rng.choice(["pos", "kw", "default", "pos1"]), val])
            elif r < 0.5:
                ops.append(["construct_symbolic", rng.choice(names), rng.choice(["sym", "rule"]),
                            rng.choice(["empty", "kw", "pos"])])
            elif r < 0.6:
                ops.append(["infer", rng.choice(names), rng.choice(names)])
            elif r < 0.65:
                ops.append(["clear"])
            elif r < 0.9:
                ops.append(["query", rng.choice(names), rng.choice(["let", "call", "kwf"])])
            elif r < 0.92:
                ops.append(["overlap", rng.choice(names), rng.choice([0, 1, 2]), rng.choice(names), val])
            elif r < 0.96:
                # a variable declared now and evaluated for the first time by a later op
                if early and rng.random() < 0.6:
                    ops.append(["evaldecl", early.pop(rng.randrange(len(early)))])
                else:
                    dn = f"e{len(ops)}"
                    early.append(dn)
                    ops.append(["declare", dn, rng.choice(names), rng.choice(["let", "call"])])
            else:
                # a no-domain query abandoned after k results: closed, dropped, or kept referenced and never resumed
                ops.append(["partial", rng.choice(names), rng.choice([0, 1, 1, 2]), rng.choice(["close", "drop", "keep"])])
        for dn in early:
            ops.append(["evaldecl", dn])
        ops.append(["query", rng.choice(names), "let"])
        ops.append(["query", names[0], "call"])
        return {"classes": classes, "ops": ops}

    # ------------------------------------------------------------------ execution
    def execute(self, plan):
        sim = Sim("C14")
        set_current(sim)
        res = Result()
        reset()
        del BUILT[:]
        classes = {}
        try:
            for spec in plan["classes"]:
                classes[spec["name"]] = _make_class(spec, classes)
                sim.count("probe:manual_init_class" if spec["style"] == "manual" else "probe:dataclass_class")
                if len(classes[spec["name"]].__bases__) > 1:
                    sim.count("probe:multiple_inheritance_class")
                if spec.get("new") and spec.get("decorated"):
                    sim.count("probe:user_defined_new")
        except Exception as e:
            set_current(None)
            res.skipped = True
            res.counters["build_failed:" + type(e).__name__] += 1
            res.digest = sim.digest()
            return res
        specs = {s["name"]: s for s in plan["classes"]}
        model = []          # the reference model: every object constructed concretely since the last clear
        labels = {}         # id(obj) -> label
        keep = []           # keeps objects alive so ids are not reused
        sig = []
        states = set()
        kept_iters = []     # abandoned, still referenced, never resumed
        declared = {}       # name -> (query, class name, classes with instances at declaration, #clears so far)
        cleared_count = [0]
        cleared = False
        inferred_ids = set()

        def label(o):
            return labels.get(id(o), "?" + type(o).__name__)

        def drain_built():
            while BUILT:
                part = BUILT.pop(0)
                if not any(part is x for x in model):
                    labels[id(part)] = f"{type(part).__name__}#part{len(keep)}"
                    keep.append(part)
                    model.append(part)
                    sim.count("probe:instance_built_inside_user_new")

        def construct(cname, style, v):
            cls = classes[cname]
            sim.cb_enabled = True
            try:
                if style == "pos":
                    o = cls(v, v + 100)
                elif style == "kw":
                    o = cls(f0=v, f1=v + 100)
                elif style == "pos1":
                    o = cls(v)
                else:
                    o = cls(f0=v)
            finally:
                sim.cb_enabled = False
            drain_built()
            if any(o is x for x in model):
                sim.count("probe:constructor_returned_existing_instance")
                return o                  # a flyweight __new__ handed out an instance that is already registered
            labels[id(o)] = f"{cname}#{v}"
            keep.append(o)
            model.append(o)
            return o

        def expected(cname, form="let"):
            cls = classes[cname]
            return sorted(label(o) for o in model if isinstance(o, cls) and (form != "kwf" or o.f1 == 7))

        def run_query(cname, form, k=None):
            cls = classes[cname]
            with symbolic_mode():
                v = let(cls) if form == "let" else (cls() if form == "call" else cls(f1=7))
                q = an(entity(v))
            return q.evaluate()

        try:
            for i, op in enumerate(plan["ops"]):
                sim.begin_op(i)
                kind = op[0]
                with op_watchdog(20):
                    if kind == "construct":
                        try:
                            o = construct(op[1], op[2], op[3])
                            sig.append(("construct", op[1], op[2]))
                            if type(o) is not classes[op[1]]:
                                sim.violate("concrete-construction-wrong-type", {"class": op[1], "got": type(o).__name__})
                        except SimBudget:
                            raise
                        except Exception as e:
                            sim.violate("concrete-construction-raised", {"class": op[1], "style": op[2],
                                                                         "exc": type(e).__name__, "msg": str(e)[:200]})
                    elif kind == "construct_many":
                        try:
                            for k in range(op[2]):
                                construct(op[1], "kw", op[3] + k)
                            sim.count("probe:many_instances_constructed")
                            sig.append(("construct_many", op[1], op[2]))
                        except SimBudget:
                            raise
                        except Exception as e:
                            sim.violate("concrete-construction-raised", {"class": op[1], "style": "kw",
                                                                         "exc": type(e).__name__, "msg": str(e)[:200]})
                    elif kind == "construct_symbolic":
                        cls = classes[op[1]]
                        inits0 = sim.cb_total
                        n_model = len(model)
                        sim.cb_enabled = True
                        try:
                            with (symbolic_mode() if op[2] == "sym" else rule_mode()):
                                if op[3] == "empty":
                                    e = cls()
                                elif op[3] == "kw":
                                    e = cls(f0=1)
                                else:
                                    e = cls(1)
                            outcome = "expr" if isinstance(e, SymbolicExpression) else "instance:" + type(e).__name__
                        except SimBudget:
                            raise
                        except Exception as ex:
                            e, outcome = None, "raised:" + type(ex).__name__
                        finally:
                            sim.cb_enabled = False
                        sim.count("probe:symbolic_construction_checked")
                        sig.append(("construct_symbolic", outcome))
                        if sim.cb_total != inits0:
                            sim.violate("symbolic-construction-ran-init", {"class": op[1], "mode": op[2], "form": op[3]})
                        elif e is not None and not isinstance(e, SymbolicExpression):
                            sim.violate("symbolic-construction-returned-instance", {"class": op[1], "mode": op[2],
                                                                                    "form": op[3], "got": outcome})
                        keep.append(e)
                    elif kind == "infer":
                        # rule head builds one instance of op[1] per instance of op[2] currently registered
                        src_cls, head_cls = classes[op[2]], classes[op[1]]
                        src = [o for o in model if isinstance(o, src_cls)]
                        if not src:
                            sig.append(("infer", "no-source"))
                        else:
                            try:
                                with rule_mode():
                                    x = let(src_cls, domain=list(src))
                                    q = infer(entity(head_cls(f0=x.f0)))
                                sim.cb_enabled = True
                                try:
                                    got = list(q.evaluate())
                                finally:
                                    sim.cb_enabled = False
                                drain_built()
                                for n, o in enumerate(got):
                                    if isinstance(o, SymbolicExpression) or type(o) is not head_cls:
                                        sim.count("infer_unexpected_result")
                                        continue
                                    if any(o is x for x in model):
                                        continue      # a flyweight constructor returned a registered instance
                                    labels[id(o)] = f"{op[1]}#inf{i}.{n}"
                                    keep.append(o)
                                    model.append(o)
                                    inferred_ids.add(id(o))
                                sig.append(("infer", len(got)))
                            except SimBudget:
                                raise
                            except Exception as e:
                                sig.append(("infer", "raised:" + type(e).__name__))
                                sim.count("infer_raised:" + type(e).__name__)
                    elif kind == "clear":
                        for c in list(Variable._cache_.values()):
                            c.clear()
                        Variable._cache_.clear()
                        model.clear()
                        del BUILT[:]
                        cleared = True
                        cleared_count[0] += 1
                        sig.append(("clear",))
                    elif kind == "query":
                        want = expected(op[1], op[2])
                        if op[2] == "kwf":
                            sim.count("probe:kwargs_filtered_query")
                        try:
                            sim.cb_enabled = True
                            try:
                                got_objs = list(run_query(op[1], op[2]))
                            finally:
                                sim.cb_enabled = False
                            got = sorted(label(o) for o in got_objs)
                            outcome = len(got)
                        except SimBudget:
                            raise
                        except Exception as e:
                            got, got_objs, outcome = None, [], "raised:" + type(e).__name__
                        sig.append(("query", op[2], outcome))
                        sim.count("probe:query_judged")
                        if cleared:
                            sim.count("probe:query_after_clear")
                        if any(id(o) in inferred_ids for o in got_objs):
                            sim.count("probe:inferred_instance_queried")
                        if any(not specs[type(o).__name__]["decorated"] for o in got_objs if type(o).__name__ in specs):
                            sim.count("probe:undecorated_subclass_instance_seen")
                        if any(type(o) is not classes[op[1]] for o in got_objs):
                            sim.count("probe:parent_query_sees_subclass")
                        if got != want:
                            sim.violate("registry-vs-construction-log", {
                                "query_type": op[1], "form": op[2], "delivered": got, "expected": want,
                                "classes": plan["classes"]})
                        if len(set(type(o).__name__ for o in got_objs)) >= 2:
                            res.nontrivial = True
                    elif kind == "declare":
                        cls = classes[op[2]]
                        with symbolic_mode():
                            v = let(cls) if op[3] == "let" else cls()
                            q = an(entity(v))
                        # classes that had a registered instance when the variable was declared
                        declared[op[1]] = (q, op[2], {type(o).__name__ for o in model}, cleared_count[0])
                        sig.append(("declare", op[2]))
                    elif kind == "evaldecl":
                        ent = declared.pop(op[1], None)
                        if ent is None:
                            sig.append(("evaldecl", "noop"))
                        else:
                            q, cname, known_then, clears_then = ent
                            want = expected(cname)
                            try:
                                sim.cb_enabled = True
                                try:
                                    got_objs = list(q.evaluate())
                                finally:
                                    sim.cb_enabled = False
                                got = sorted(label(o) for o in got_objs)
                                outcome = len(got)
                            except SimBudget:
                                raise
                            except Exception as e:
                                got, outcome = None, "raised:" + type(e).__name__
                            sim.count("probe:declared_earlier_query_judged")
                            new_classes = sorted({type(o).__name__ for o in model
                                                  if isinstance(o, classes[cname])} - known_then)
                            sig.append(("evaldecl", outcome))
                            if got != want:
                                sim.violate("declared-earlier-query-vs-construction-log", {
                                    "query_type": cname, "delivered": got, "expected": want,
                                    "classes_first_instantiated_after_declaration": new_classes,
                                    "registry_cleared_between": cleared_count[0] != clears_then,
                                    "classes": plan["classes"]})
                    elif kind == "partial":
                        try:
                            sim.cb_enabled = True
                            try:
                                it = run_query(op[1], "let")
                                n = 0
                                for _ in range(op[2]):
                                    try:
                                        next(it)
                                        n += 1
                                    except StopIteration:
                                        break
                                if op[3] == "close":
                                    it.close()
                                elif op[3] == "keep":
                                    kept_iters.append(it)
                                it = None
                            finally:
                                sim.cb_enabled = False
                            sim.count("probe:abandoned_registry_query")
                            sig.append(("partial", n, op[3]))
                        except SimBudget:
                            raise
                        except Exception as e:
                            sig.append(("partial", "raised:" + type(e).__name__))
                    elif kind == "overlap":
                        start = expected(op[1])
                        it = None
                        try:
                            sim.cb_enabled = True
                            try:
                                it = run_query(op[1], "let")
                                taken = []
                                for _ in range(op[2]):
                                    try:
                                        taken.append(next(it))
                                    except StopIteration:
                                        break
                            finally:
                                sim.cb_enabled = False
                            construct(op[3], "kw", op[4])
                            sim.cb_enabled = True
                            try:
                                taken.extend(it)
                            finally:
                                sim.cb_enabled = False
                            got = sorted(label(o) for o in taken)
                            end = expected(op[1])
                            sim.count("probe:overlap_judged")
                            sig.append(("overlap", len(got)))
                            if not (_submultiset(start, got) and _submultiset(got, end)):
                                sim.violate("overlapped-query-outside-bounds", {"delivered": got, "log_at_start": start,
                                                                                "log_at_end": end})
                        except SimBudget:
                            raise
                        except Exception as e:
                            # constructing an instance of a class whose store a suspended query is iterating is a
                            # concurrent modification; the statement does not say what it should do, so it is counted
                            sig.append(("overlap", "raised:" + type(e).__name__))
                            sim.count("overlap_raised:" + type(e).__name__)
                if _symbolic_mode.get() is not None:
                    _symbolic_mode.set(None)
                states.add((kind, min(len(model), 8), cleared, len(inferred_ids) > 0,
                            tuple(sorted({type(o).__name__ for o in model}))))
                sim.end_op()
                if sim.violations:
                    break
        except SimBudget as e:
            sim.violate("no-result-within-budget", {"cap": str(e)})
        finally:
            _symbolic_mode.set(None)
            set_current(None)
        if sim.counters.get("probe:inferred_instance_queried"):
            res.nontrivial = True
        res.violations = sim.violations
        res.digest = sim.digest()
        res.counters = sim.counters
        res.signature = tuple(sig)
        res.steps = sim.seq
        res.states = tuple(states)
        return res

    def shrink_candidates(self, plan):
        used = set()
        for op in plan["ops"]:
            for a in op[1:]:
                if isinstance(a, str) and a.startswith("K"):
                    used.add(a)
        bases = {c["base"] for c in plan["classes"] if c.get("base")}
        for k, c in enumerate(plan["classes"]):
            if c["name"] not in used and c["name"] not in bases:
                p = copy.deepcopy(plan)
                del p["classes"][k]
                yield p
            if c.get("extra_field"):
                p = copy.deepcopy(plan)
                p["classes"][k]["extra_field"] = None
                yield p
            if c.get("eq"):
                p = copy.deepcopy(plan)
                p["classes"][k]["eq"] = False
                yield p
            if c.get("new"):
                p = copy.deepcopy(plan)
                p["classes"][k]["new"] = None
                yield p
            if c.get("double_symbol"):
                p = copy.deepcopy(plan)
                p["classes"][k]["double_symbol"] = False
                yield p
            if c.get("base") and not c.get("decorated"):
                pass
        for i, op in enumerate(plan["ops"]):
            if op[0] == "construct" and op[2] != "kw":
                p = copy.deepcopy(plan)
                p["ops"][i][2] = "kw"
                yield p
            if op[0] == "query" and op[2] != "let":
                p = copy.deepcopy(plan)
                p["ops"][i][2] = "let"
                yield p


def _submultiset(a, b):
    from collections import Counter
    ca, cb_ = Counter(a), Counter(b)
    return all(cb_[k] >= v for k, v in ca.items())


PROP = C14()
