"""C20 — The result-cache index returns exactly the stored entries matching a lookup.

Source 1 (this module): generated insert / check / retrieve / clear histories against the real
`IndexedCache`, compared operation by operation with a list-of-(binding, output) reference model.
Source 2: histories the real engine produces (shadow model attached inside C04/C05 runs, see seams.py).
"""
from __future__ import annotations

from .. import libpath  # noqa: F401
from ..kernel import Sim, SimBudget, set_current
from ..runner import Result
from . import Prop

from entity_query_language.cache_data import IndexedCache
from entity_query_language.hashed_data import HashedValue


# ------------------------------------------------------------------------------------------ model

class ListModel:
    """The whole reference model: a list of (binding, output)."""

    def __init__(self, keys):
        self.keys = set(keys)
        self.store = []   # list[(dict key->value label, out)]

    def insert(self, binding, out):
        for i, (b, _) in enumerate(self.store):
            if b == binding:
                self.store[i] = (b, out)
                return
        self.store.append((dict(binding), out))

    def check(self, lookup):
        l = {k: v for k, v in lookup.items() if k in self.keys}
        return any(all(k in l and l[k] == v for k, v in b.items()) for b, _ in self.store)

    def retrieve(self, lookup):
        out = []
        for b, o in self.store:
            if all(lookup[k] == v for k, v in b.items() if k in lookup):
                merged = dict(lookup)
                merged.update(b)
                out.append((tuple(sorted(merged.items())), o))
        return sorted(out, key=repr)

    def clear(self):
        self.store = []

    def sibling_trigger(self, lookup, sorted_keys):
        """True iff the trie path of some stored entry that this lookup must return crosses a trie node that holds
        both a wildcard child and a concrete child (whatever the sibling's own compatibility): the shape the known
        retrieval defect KF-C20-1 needs (retrieve follows only one of the two kinds of branch at such a node)."""
        keys = sorted_keys
        bindings = [b for b, _ in self.store]
        comp = [b for b in bindings if all(lookup[k] == v for k, v in b.items() if k in lookup)]
        for e in comp:
            for e2 in bindings:
                if e2 is e:
                    continue
                for k in keys:
                    in1, in2 = k in e, k in e2
                    if in1 and in2:
                        if e[k] != e2[k]:
                            break           # different concrete children: paths diverge without mixing kinds
                        continue
                    if not in1 and not in2:
                        continue
                    return True             # same node, one wildcard child and one concrete child
        return False


# ------------------------------------------------------------------------------------------ property

class C20(Prop):
    id = "C20"
    level = "exploration"
    title = "The result-cache index returns exactly the stored entries matching a lookup"
    campaigns = {
        "quick": [("plain", 400000, 40), ("engine", 6000, 60), ("known:siblings", 4000, 30),
                  ("known:engine_siblings", 500, 40)],
        "thorough": [("plain", 6000000, 600), ("engine", 150000, 1200), ("known:siblings", 40000, 300),
                     ("known:engine_siblings", 60000, 600)],
    }
    chunk = 2000
    vacuity = {"quick": ["probe:engine_retrieve_judged", "probe:engine_check_judged", "probe:engine_insert_partial_binding",
                         "probe:wildcard_level_traversed", "probe:overwrite", "probe:retrieve_multi",
                         "probe:check_true", "probe:check_false", "probe:lookup_with_extra_keys",
                         "probe:cleared_nonempty", "probe:insert_from_reused_dict",
                         "probe:retrieve_consumed_row_by_row_with_mutation"]}
    rule = ("seeded histories of insert(full|partial non-empty binding, out) / check(lookup binding >=1 key) / "
            "retrieve(lookup, drained) / clear over 1-4 integer keys given in random order and 2-3 values; "
            "campaign 'plain' never stores a wildcard entry and a concrete entry as siblings on one trie level, "
            "campaign 'siblings' is biased toward exactly that; a history is non-trivial when at least one "
            "retrieve returned >= 1 entry and at least one check was judged; distinct = distinct "
            "(op kind, outcome) sequences")
    assumptions = [
        "outputs are opaque values; values are HashedValue objects compared by id_ as in the engine",
        "check() with a lookup that binds no key is not issued (the statement speaks of lookups binding >= 1 key; "
        "the engine's own empty lookups are covered by the shadow model in C04/C05 runs)",
        "a retrieval is judged only when drained completely",
    ]
    components = {"real": ["cache_data.IndexedCache", "cache_data.SeenSet", "hashed_data.HashedValue", "utils.ALL"],
                  "stub": ["none: the index has no collaborators"]}

    def gen(self, rng, tier, campaign):
        if "engine" in campaign:
            # source 2: the histories the real engine produces while it evaluates seeded query pools
            from .c05 import PROP as C05
            plan = C05.gen(rng, tier, "main" if campaign == "engine" else "known:disjunction_over_different_variables")
            plan["engine"] = True
            return plan
        nk = rng.choice([1, 2, 2, 3, 3, 4])
        keys = rng.sample(rng.choice([list(range(1, 9)), list(range(1, 9)), [-3, -1, 0, 1, 2, 5, 100, 1000]]), nk)
        nv = rng.choice([2, 2, 3])
        n_ops = rng.randint(2, 10 if tier == "quick" else rng.choice([14, 14, 40]))
        reuse_buffer = rng.random() < 0.3
        siblings = campaign == "known:siblings"
        ops = []
        stored = []

        def rand_binding(partial_p):
            ks = [k for k in keys if rng.random() > partial_p]
            if not ks:
                ks = [rng.choice(keys)]
            return {str(k): rng.randrange(nv) for k in ks}

        # one history-wide style keeps the 'plain' campaign out of the sibling region by construction:
        # every insert binds the same key subset, so no level can mix wildcard and concrete children
        fixed_subset = None
        if not siblings:
            fixed_subset = sorted(rng.sample(keys, rng.randint(1, nk)))
        for _ in range(n_ops):
            r = rng.random()
            if r < 0.45 or not stored:
                if fixed_subset is not None:
                    b = {str(k): rng.randrange(nv) for k in fixed_subset}
                else:
                    b = rand_binding(rng.choice([0.0, 0.3, 0.5]))
                    if stored and rng.random() < 0.4:
                        # derive a sibling: same as a stored binding with one key dropped or added
                        base = dict(rng.choice(stored))
                        if len(base) > 1 and rng.random() < 0.5:
                            del base[rng.choice(sorted(base))]
                        else:
                            missing = [str(k) for k in keys if str(k) not in base]
                            if missing:
                                base[rng.choice(missing)] = rng.randrange(nv)
                        b = base
                if stored and rng.random() < 0.15:
                    b = dict(rng.choice(stored))    # overwrite
                stored.append(dict(b))
                op = ["insert", b, rng.choice([rng.randrange(1000), rng.randrange(1000), 0, False, "", ()])]
                if reuse_buffer and rng.random() < 0.7:
                    op.append("buf")      # the caller refills and re-inserts one dict object (row-buffer style)
                ops.append(op)
            elif r < 0.65:
                l = rand_binding(rng.choice([0.0, 0.3, 0.6]))
                if rng.random() < 0.3:
                    l["x%d" % rng.randrange(2)] = rng.randrange(nv)   # extra non-key entries, as callers pass
                ops.append(["check", l])
            elif r < 0.95:
                l = rand_binding(rng.choice([0.0, 0.3, 0.6, 0.9]))
                if rng.random() < 0.15:
                    l = {}
                if rng.random() < 0.3:
                    l["x%d" % rng.randrange(2)] = rng.randrange(nv)
                ops.append(["retrieve", l])
            else:
                ops.append(["clear"])
                stored = []
        # always end with lookups so every history is judged
        ops.append(["retrieve", rand_binding(0.5)])
        ops.append(["check", rand_binding(0.3)])
        return {"keys": keys, "nvals": nv, "ops": ops}

    def _execute_engine(self, plan):
        from .c05 import PROP as C05
        from ..spec import BuildError
        from .. import seams
        sim = Sim("C20")
        sim.log_callbacks = False
        set_current(sim)
        res = Result()
        seams.SHADOW_JUDGE_SIBLINGS = str(plan.get("campaign", "")).startswith("known:")
        try:
            try:
                outs = C05._replica(plan, "A", sim, shadow=True)
            except BuildError:
                res.skipped = True
                res.counters["build_failed"] += 1
            except SimBudget:
                res.skipped = True
        finally:
            seams.SHADOW_JUDGE_SIBLINGS = False
            set_current(None)
        res.violations = sim.violations[:1]
        res.digest = sim.digest()
        res.counters = sim.counters
        res.signature = tuple(e[1:4] for e in sim.log if e[1] == "full")
        res.nontrivial = sim.counters.get("probe:engine_retrieve_judged", 0) > 0
        res.steps = sim.seq
        return res

    def execute(self, plan):
        if plan.get("engine"):
            return self._execute_engine(plan)
        sim = Sim("C20")
        set_current(sim)
        res = Result()
        keys = list(plan["keys"])
        vals = [HashedValue(value=f"v{i}", id_=1000 + i) for i in range(plan["nvals"] + 1)]
        xkeys = {"x0": 9001, "x1": 9002}

        def conv(b):
            out = {}
            for k, v in b.items():
                kk = xkeys[k] if k in xkeys else int(k)
                out[kk] = vals[v]
            return out

        def lab(d):
            return {k: v.id_ - 1000 for k, v in d.items()}

        real = IndexedCache(list(keys))
        model = ListModel(keys)
        buf = {}            # one dict object the caller keeps refilling (aliasing seam)
        sorted_keys = sorted(keys)
        sig = []
        states = set()
        got_any = judged_check = False
        for i, op in enumerate(plan["ops"]):
            sim.begin_op(i)
            kind = op[0]
            if kind == "insert":
                b = conv(op[1])
                if not b:
                    sig.append("i0")
                    continue
                mb = lab(b)
                if any(x == mb for x, _ in model.store):
                    sim.count("probe:overwrite")
                if len(op) > 3 and op[3] == "buf":
                    buf.clear()
                    buf.update(b)
                    real.insert(buf, op[2])
                    sim.count("probe:insert_from_reused_dict")
                else:
                    real.insert(dict(b), op[2])
                model.insert(mb, op[2])
                sim.event("insert", tuple(sorted(mb.items())), op[2])
                sig.append("i%d" % len(b))
            elif kind == "check":
                l = conv(op[1])
                if not any(k in keys for k in l):
                    sig.append("c-")
                    continue
                if any(k not in keys for k in l):
                    sim.count("probe:lookup_with_extra_keys")
                got = bool(real.check(dict(l)))
                want = model.check(lab(l))
                sim.event("check", tuple(sorted(lab(l).items())), got)
                sim.count("probe:check_true" if want else "probe:check_false")
                judged_check = True
                sig.append("c%d" % got)
                if got != want:
                    sim.violate("check", {"lookup": lab(l), "got": got, "want": want, "store": model.store})
            elif kind == "retrieve":
                l = conv(op[1])
                if any(k not in keys for k in l):
                    sim.count("probe:lookup_with_extra_keys")
                ll = lab(l)
                trig = model.sibling_trigger(ll, sorted_keys)
                if trig:
                    sim.count("probe:sibling_level_on_lookup_path")
                try:
                    if i % 2 == 0:
                        # drained into a list first: the resolved assignments must be independent dicts
                        drained = list(real.retrieve(dict(l)))
                        got = sorted(((tuple(sorted(lab(r).items())), o) for r, o in drained), key=repr)
                    else:
                        # consumed one row at a time, and each row is modified by the consumer before the next one is
                        # requested (as the engine's operators do with `value.update(...)`): later rows must not
                        # carry those modifications
                        got = []
                        for r, o in real.retrieve(dict(l)):
                            got.append((tuple(sorted(lab(r).items())), o))
                            r[424242] = vals[0]
                            for kk in keys:
                                r[kk] = vals[-1]
                        got = sorted(got, key=repr)
                        sim.count("probe:retrieve_consumed_row_by_row_with_mutation")
                    exc = None
                except Exception as e:  # the index raising on a well-formed lookup is a wrong answer
                    got, exc = None, type(e).__name__
                want = model.retrieve(ll)
                sim.event("retrieve", tuple(sorted(ll.items())), tuple(got) if got is not None else exc)
                if want:
                    got_any = True
                if len(want) > 1:
                    sim.count("probe:retrieve_multi")
                if any(len(tuple(k for k in b)) < len(keys) for b, _ in model.store) and want:
                    sim.count("probe:wildcard_level_traversed")
                sig.append("r%s" % (len(got) if got is not None else exc))
                if got != want:
                    sim.violate("retrieve", {"lookup": ll, "got": got, "want": want, "exception": exc,
                                             "store": model.store, "sibling_trigger": trig,
                                             "keys_sorted": sorted_keys})
            elif kind == "clear":
                if model.store:
                    sim.count("probe:cleared_nonempty")
                real.clear()
                model.clear()
                sim.event("clear")
                sig.append("x")
                if list(real.retrieve({})) or real.cache or real.seen_set.seen or real.seen_set.all_seen:
                    sim.violate("clear", {"left": "index not empty after clear()"})
            states.add((kind, min(len(model.store), 6), sum(1 for b, _ in model.store if len(b) < len(keys)),
                        len(keys)))
            sim.end_op()
            if sim.violations:
                break
        set_current(None)
        res.states = tuple(states)
        res.violations = sim.violations
        res.digest = sim.digest()
        res.counters = sim.counters
        res.signature = tuple(sig)
        res.nontrivial = got_any and judged_check
        res.steps = sim.seq
        return res

    # shrinking: shrink bindings / values
    def shrink_candidates(self, plan):
        import copy
        if plan.get("engine"):
            from .c04 import shrink_query_plan
            yield from shrink_query_plan(plan)
            return
        for i, op in enumerate(plan["ops"]):
            if op[0] in ("insert", "check", "retrieve") and isinstance(op[1], dict):
                for k in list(op[1]):
                    c = copy.deepcopy(plan)
                    del c["ops"][i][1][k]
                    yield c
                for k, v in op[1].items():
                    if v > 0:
                        c = copy.deepcopy(plan)
                        c["ops"][i][1][k] = 0
                        yield c
            if op[0] == "insert" and op[2] != i:
                c = copy.deepcopy(plan)
                c["ops"][i][2] = i
                yield c
        if len(plan["keys"]) > 1:
            for k in plan["keys"]:
                c = copy.deepcopy(plan)
                c["keys"] = [x for x in plan["keys"] if x != k]
                for op in c["ops"]:
                    if len(op) > 1 and isinstance(op[1], dict):
                        op[1].pop(str(k), None)
                yield c


PROP = C20()
