"""Deterministic simulation with fault injection for entity_query_language (see /verif/DESIGN.md)."""
