"""Plan minimisation: ddmin over plan["ops"], then property-specific candidates, to a fixpoint.

A candidate is accepted only if a fresh execution fails the same oracle of the same property.
"""
from __future__ import annotations

import copy
import json
from typing import Callable, Optional


def _ints(o):
    if isinstance(o, bool):
        return 0
    if isinstance(o, int):
        return abs(o)
    if isinstance(o, dict):
        return sum(_ints(v) for k, v in o.items() if k not in ("seed", "index"))
    if isinstance(o, (list, tuple)):
        return sum(_ints(v) for v in o)
    return 0


def _size(plan):
    return (len(plan.get("ops") or ()), len(json.dumps(plan, sort_keys=True, default=str)), _ints(plan))


def shrink(prop, plan: dict, oracle: str, max_exec: int = 600):
    """Returns (minimised plan, result of its execution, executions used)."""
    used = 0
    if (plan.get("cfg") or {}).get("large"):
        max_exec = min(max_exec, 25)       # each execution of a large-world plan takes seconds

    def fails(p) -> Optional[object]:
        nonlocal used
        if used >= max_exec:
            return None
        used += 1
        try:
            res = prop.execute(copy.deepcopy(p))
        except BaseException:
            return None
        if any(v.oracle == oracle for v in res.violations):
            return res
        return None

    best = copy.deepcopy(plan)
    best_res = fails(best)
    if best_res is None:
        return plan, None, used
    progress = True
    while progress and used < max_exec:
        progress = False
        # ---- ddmin over ops
        ops = best.get("ops")
        if ops:
            n = 2
            while len(best["ops"]) >= 1 and used < max_exec:
                ops = best["ops"]
                size = max(1, len(ops) // n)
                reduced = False
                for start in range(0, len(ops), size):
                    cand = copy.deepcopy(best)
                    cand["ops"] = ops[:start] + ops[start + size:]
                    cand = prop.normalise(cand)
                    if len(cand["ops"]) == len(ops):
                        continue
                    r = fails(cand)
                    if r is not None:
                        best, best_res = cand, r
                        reduced = True
                        progress = True
                        n = max(n - 1, 2)
                        break
                if not reduced:
                    if size == 1:
                        break
                    n = min(len(ops), n * 2)
        # ---- property-specific candidates (first improvement, restart)
        improved = True
        while improved and used < max_exec:
            improved = False
            cur = _size(best)
            for cand in prop.shrink_candidates(copy.deepcopy(best)):
                cand = prop.normalise(cand)
                if _size(cand) >= cur:
                    continue
                r = fails(cand)
                if r is not None:
                    best, best_res = cand, r
                    improved = True
                    progress = True
                    break
    return best, best_res, used
