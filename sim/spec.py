"""Query-spec language (JSON-able) and its builder to real EQL expressions.

pool spec = {"vars": [VAR...], "queries": [QUERY...]}
VAR   = {"n": name, "t": class name, "dom": domain name | None, "kind": list|tuple|gen|iterobj|logcol,
         "form": let|From|kw, "kw": {field: TERM-or-literal}}
QUERY = {"id", "quant": an|the|infer, "shape": entity|set_of, "sel": [var names], "conds": [COND...],
         "head": [class name, {field: TERM}] (infer form), "rule": RULE (Add-conclusion tree), "mode": query|rule}
TERM  = ["v", name] | ["attr", TERM, field] | ["idx", TERM, i] | ["call", TERM, meth, [args]] | ["lit", value]
        | ["obj", label] | ["flat", TERM] | ["cat", TERM]
COND  = ["cmp", TERM, op, TERM] | ["in", TERM item, TERM container] | ["and", COND...] | ["or", COND...]
        | ["not", COND] | ["fp", name, [TERM...]] | ["cp", name, [TERM...]] | ["forall", TERM, COND]
        | ["nest", var name, [COND...]] | ["ht", TERM, class name]
        | ["shared", shared id, COND]            (ONE condition object per id and pool, reused by every query)
        | ["sub", var name, [COND...], sub id]   (like nest, but ONE object per sub id and pool, reused by every query)
RULE  = {"add": [class, {field: TERM}], "children": [{"kind": refinement|alternative|next, "conds": [COND...],
         "node": RULE}]}
"""
from __future__ import annotations

import operator
from typing import Any, Dict, List, Optional

from . import libpath  # noqa: F401
from . import world as W

from entity_query_language import (entity, an, let, the, set_of, and_, or_, not_, contains, in_, infer, flatten,
                                   concatenate, for_all, symbolic_mode, rule_mode, From, Add, HasType, refinement,
                                   alternative)
from entity_query_language.rule import next_rule
from entity_query_language.symbolic import SymbolicExpression, ResultQuantifier

OPS = {"==": operator.eq, "!=": operator.ne, "<": operator.lt, "<=": operator.le, ">": operator.gt,
       ">=": operator.ge}


class BuildError(Exception):
    pass


class Pool:
    """A built pool of queries over shared variables, bound to a World."""

    def __init__(self, world: W.World, spec: dict, domain_kinds: Optional[Dict[str, str]] = None,
                 stream_faults: Optional[dict] = None, only: Optional[List[str]] = None):
        self.world = world
        self.spec = spec
        self.vars: Dict[str, Any] = {}
        self.varname_by_id: Dict[int, str] = {}
        self.queries: Dict[str, Any] = {}
        self.streams: Dict[str, Any] = {}      # var name -> OneShot / LoggingCollection (pull logs)
        self.built_conds: Dict[str, list] = {}
        self.shared_conds: Dict[str, Any] = {}  # shared id -> the one condition OBJECT used by several queries
        self.subqueries: Dict[str, Any] = {}   # sub id -> the one sub-query OBJECT shared by the queries using it
        self.kind_override = domain_kinds       # twin pools use plain list copies
        self.stream_faults = stream_faults or {}
        try:
            for vs in spec["vars"]:
                self._build_var(vs)
            for qs in spec["queries"]:
                if only is not None and qs["id"] not in only:
                    continue
                self.queries[qs["id"]] = self._build_query(qs)
        except BuildError:
            raise
        except RecursionError:
            raise
        except Exception as e:
            raise BuildError(f"{type(e).__name__}: {e}") from e

    # ------------------------------------------------------------------ variables
    def _domain(self, vs):
        name = vs.get("dom")
        if name is None:
            return None
        items = self.world.lists[name]
        kind = vs.get("kind", "list")
        if self.kind_override is not None:
            kind = self.kind_override.get(kind, kind)
        if kind == "list":
            return items                      # the user's own collection (must never be modified)
        if kind == "listcopy":
            return list(items)
        if kind == "tuple":
            return tuple(items)
        sf = self.stream_faults.get(vs["n"], {})
        if kind in ("gen", "iterobj"):
            s = W.OneShot(vs["n"], list(items), fail_at=sf.get("fail_at"), stop_at=sf.get("stop_at"))
            self.streams[vs["n"]] = s
            return W.one_shot_generator(s) if kind == "gen" else s
        if kind == "logcol":
            s = W.LoggingCollection(vs["n"], list(items))
            self.streams[vs["n"]] = s
            return s
        raise BuildError(f"domain kind {kind}")

    def _build_var(self, vs):
        cls = W.CLASSES[vs["t"]]
        dom = self._domain(vs)
        form = vs.get("form", "let")
        with symbolic_mode():
            if form == "let":
                v = let(cls, dom) if dom is not None else let(cls)
            elif form == "From":
                v = cls(From(dom)) if dom is not None else cls()
            elif form == "kw":
                kw = {k: self._term_or_value(t) for k, t in vs.get("kw", {}).items()}
                v = cls(From(dom), **kw) if dom is not None else cls(**kw)
            else:
                raise BuildError(f"var form {form}")
        self.vars[vs["n"]] = v
        base = v._var_ if isinstance(v, ResultQuantifier) else v
        self.varname_by_id[id(base)] = vs["n"]
        self.varname_by_id[id(v)] = vs["n"]

    def _term_or_value(self, t):
        if isinstance(t, list) and t and t[0] in ("v", "attr", "idx", "call", "lit", "obj", "flat", "cat"):
            return self.term(t)
        return W.World._val("", t)

    # ------------------------------------------------------------------ terms / conditions
    def term(self, t):
        k = t[0]
        if k == "v":
            return self.vars[t[1]]
        if k == "attr":
            return getattr(self.term(t[1]), t[2])
        if k == "idx":
            return self.term(t[1])[t[2]]
        if k == "call":
            args = [W.World._val("", a) for a in (t[3] if len(t) > 3 else [])]
            return getattr(self.term(t[1]), t[2])(*args)
        if k == "lit":
            v = t[1]
            if isinstance(v, list):
                return [W.World._val("", x) for x in v]
            return W.World._val("", v)
        if k == "obj":
            return self.world.objects[t[1]]
        if k == "flat":
            return flatten(self.term(t[1]))
        if k == "cat":
            return concatenate(self.term(t[1]))
        raise BuildError(f"term {k}")

    def cond(self, c):
        k = c[0]
        if k == "cmp":
            l, r = self.term(c[1]), self.term(c[3])
            if not isinstance(l, SymbolicExpression) and not isinstance(r, SymbolicExpression):
                raise BuildError("comparison of two literals")
            return OPS[c[2]](l, r)
        if k == "in":
            return in_(self.term(c[1]), self.term(c[2]))
        if k == "and":
            return and_(*[self.cond(x) for x in c[1:]])
        if k == "or":
            return or_(*[self.cond(x) for x in c[1:]])
        if k == "not":
            return not_(self.cond(c[1]))
        if k == "fp":
            f, _ = W.FPREDS[c[1]]
            return f(*[self.term(x) for x in c[2]])
        if k == "cp":
            f, _ = W.CPREDS[c[1]]
            return f(*[self.term(x) for x in c[2]])
        if k == "ht":
            return HasType(self.term(c[1]), W.CLASSES[c[2]])
        if k == "forall":
            return for_all(self.term(c[1]), self.cond(c[2]))
        if k == "nest":
            return an(entity(self.vars[c[1]], *[self.cond(x) for x in c[2]]))
        if k == "sub":
            # a reusable sub-query object (allowed = an(entity(tool, ...)) used as a conjunct of several queries)
            if c[3] not in self.subqueries:
                self.subqueries[c[3]] = an(entity(self.vars[c[1]], *[self.cond(x) for x in c[2]]))
            return self.subqueries[c[3]]
        if k == "shared":
            # ["shared", id, COND]: ONE condition object per id and pool, reused by every query that names the id
            if c[1] not in self.shared_conds:
                self.shared_conds[c[1]] = self.cond(c[2])
            return self.shared_conds[c[1]]
        raise BuildError(f"cond {k}")

    # ------------------------------------------------------------------ queries
    def _build_query(self, qs):
        quant = {"an": an, "the": the, "infer": infer}[qs.get("quant", "an")]
        mode = qs.get("mode", "query")
        ctx = rule_mode() if mode == "rule" else symbolic_mode()
        with ctx:
            if qs.get("conds_from") and qs["conds_from"] in self.built_conds:
                # the SAME condition objects as another query of the pool (cond = or_(...) used in two queries)
                conds = self.built_conds[qs["conds_from"]]
            else:
                conds = [self.cond(c) for c in qs.get("conds", [])]
            self.built_conds[qs["id"]] = conds
            if qs.get("head"):
                cls = W.CLASSES[qs["head"][0]]
                head = cls(**{k: self.term(t) for k, t in qs["head"][1].items()})
                q = quant(entity(head, *conds))
            elif qs.get("shape", "entity") == "entity":
                q = quant(entity(self.vars[qs["sel"][0]], *conds))
            else:
                q = quant(set_of([self.vars[n] for n in qs["sel"]], *conds))
        if qs.get("rule"):
            head_var = self.vars[qs["sel"][0]]
            with rule_mode(q):
                self._build_rule(head_var, qs["rule"])
        return q

    def _build_rule(self, head_var, node):
        if node.get("add"):
            cls = W.CLASSES[node["add"][0]]
            Add(head_var, cls(**{k: self.term(t) for k, t in node["add"][1].items()}))
        for ch in node.get("children", []):
            conds = [self.cond(c) for c in ch["conds"]]
            f = {"refinement": refinement, "alternative": alternative, "next": next_rule}[ch["kind"]]
            with f(*conds):
                self._build_rule(head_var, ch["node"])

    # ------------------------------------------------------------------ results
    def row(self, q, result) -> Any:
        """Harness label of one delivered result."""
        from entity_query_language.symbolic import UnificationDict
        if isinstance(result, UnificationDict):
            out = []
            for var, hv in result.data.items():
                name = self.varname_by_id.get(id(var)) or self.varname_by_id.get(id(getattr(var, "_var_", None)), "?")
                out.append((name, W.lab(hv.value)))
            return tuple(sorted(out, key=repr))
        if isinstance(result, SymbolicExpression):
            return ("SYMBOLIC", type(result).__name__)
        return W.lab(result)
