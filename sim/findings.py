"""Known findings: /verif/known_findings.json is committed and never written at run time.

  fixed: list of lines "fixed: property=<id> <commit> <what failed>"   (suppress nothing)
  open:  list of {"id", "property", "what", "trigger"}                 (trigger = name of a predicate below)

A trigger is a predicate over the *minimised plan and the violated oracle* (the input/history that fails),
never over "the check failed".  A violation that no listed trigger matches is reported as VIOLATION.
"""
from __future__ import annotations

import json
import os
from typing import Optional

VERIF = os.path.dirname(os.path.dirname(os.path.abspath(__file__)))
PATH = os.path.join(VERIF, "known_findings.json")

TRIGGERS = {}


def trigger(name):
    def deco(f):
        TRIGGERS[name] = f
        return f
    return deco


def load():
    try:
        with open(PATH) as f:
            return json.load(f)
    except FileNotFoundError:
        return {"fixed": [], "open": []}


@trigger("query_region")
def _query_region(plan, violation, entry):
    """The minimised failing plan still contains a query inside the named syntactic region of the query space
    (sim/gen.py query_regions) and the violated oracle is one the finding lists."""
    from .gen import pool_regions
    if violation.get("oracle") not in entry.get("oracles", []):
        return False
    return entry.get("region") in pool_regions(plan["pool"])


@trigger("c20_sibling_levels")
def _c20_siblings(plan, violation, entry):
    """Retrieval whose lookup path crosses a trie level holding both a wildcard child and a concrete child that
    are each compatible with the lookup (computed by the reference model from the stored bindings)."""
    d = violation.get("detail") or {}
    return violation.get("oracle") in entry.get("oracles", []) and bool(d.get("sibling_trigger"))


def classify(prop_id: str, plan: dict, violation: dict) -> Optional[dict]:
    """Return the open finding whose trigger matches this minimised failing plan, if any."""
    for entry in load().get("open", []):
        if entry.get("property") != prop_id:
            continue
        t = TRIGGERS.get(entry.get("trigger"))
        if t is not None and t.__code__.co_argcount == 3:
            try:
                if t(plan, violation, entry):
                    return entry
            except Exception:
                pass
            continue
        if t is None:
            continue
        try:
            if t(plan, violation):
                return entry
        except Exception:
            continue
    return None
