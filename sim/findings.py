"""Known findings: /verif/known_findings.json is committed and never written at run time.

  fixed: list of lines "fixed: property=<id> <commit> <what failed>"   (suppress nothing)
  open:  list of {"id", "property", "what", "trigger"}                 (trigger = name of a predicate below)

A trigger is a predicate over the *minimised plan and the violated oracle* (the input/history that fails),
never over "the check failed".  A violation that no listed trigger matches is reported as VIOLATION.
"""
from __future__ import annotations

import json
import os
from typing import Optional

VERIF = os.path.dirname(os.path.dirname(os.path.abspath(__file__)))
PATH = os.path.join(VERIF, "known_findings.json")

TRIGGERS = {}


def trigger(name):
    def deco(f):
        TRIGGERS[name] = f
        return f
    return deco


def load():
    try:
        with open(PATH) as f:
            return json.load(f)
    except FileNotFoundError:
        return {"fixed": [], "open": []}


@trigger("query_region")
def _query_region(plan, violation, entry):
    """The minimised failing plan still contains a query inside the named syntactic region of the query space
    (sim/gen.py query_regions) and the violated oracle is one the finding lists."""
    from .gen import pool_regions
    if violation.get("oracle") not in entry.get("oracles", []):
        return False
    return entry.get("region") in pool_regions(plan["pool"])


@trigger("c20_sibling_levels")
def _c20_siblings(plan, violation, entry):
    """Retrieval whose lookup path crosses a trie level holding both a wildcard child and a concrete child that
    are each compatible with the lookup (computed by the reference model from the stored bindings)."""
    d = violation.get("detail") or {}
    return violation.get("oracle") in entry.get("oracles", []) and bool(d.get("sibling_trigger"))


@trigger("c07_falsy_operand")
def _c07_falsy(plan, violation, entry):
    """The stream holds an object with a falsy value in a field that a condition of the query reads."""
    if violation.get("oracle") not in entry.get("oracles", []):
        return False
    fields = set()

    def walk(t):
        if isinstance(t, list):
            if len(t) == 3 and t[0] == "attr" and isinstance(t[2], str):
                fields.add(t[2])
            if len(t) == 3 and t[0] == "idx":
                fields.add("tags")
            if len(t) >= 3 and t[0] == "call":
                fields.update(("a", "b"))
            if t and t[0] in ("fp", "cp"):
                fields.update(("a", "b", "tags"))
            for x in t:
                walk(x)
    for q in plan["pool"]["queries"]:
        walk(q.get("conds", []))
    for v in plan["pool"]["vars"]:
        fields.update((v.get("kw") or {}).keys())
    labels = set()
    for dom in plan["world"]["domains"].values():
        labels |= set(dom)
    if any(v.get("dom") is None for v in plan["pool"]["vars"]):
        labels |= {o["l"] for o in plan["world"]["objects"]}
    if entry.get("property") == "C07":
        labels = set(plan["world"]["domains"].get("d0", []))
    for o in plan["world"]["objects"]:
        if o["l"] in labels:
            for f in fields:
                val = o["f"].get(f)
                if val in (0, None) or val == [] or (isinstance(val, list) and any(x in (0, None) for x in val)):
                    return True
    return False


@trigger("c06_shared_conditions_warm")
def _c06_shared_warm(plan, violation, entry):
    """The `the` query is built from the SAME condition objects as the `an` query, an `an` iterator is left
    suspended, and either an evaluation had already run before that iterator was created (warm operator caches) or
    the shared condition is not one flat disjunction of atoms (its de-duplicating nodes then have the same parent
    node in both queries)."""
    if violation.get("oracle") not in entry.get("oracles", []):
        return False
    if not any(q.get("conds_from") for q in plan["pool"]["queries"]):
        return False
    ops = plan["ops"]
    q0 = [q for q in plan["pool"]["queries"] if q["id"] == "q0"][0]
    conds = q0.get("conds", [])
    flat = len(conds) == 1 and conds[0][0] == "or" and all(c[0] in ("cmp", "in", "fp", "cp", "ht") for c in conds[0][1:])
    for i, op in enumerate(ops):
        if op[0] == "an_keep":
            if not flat or any(o[0] in ("the", "an_full", "an_take", "an_keep") for o in ops[:i]):
                return True
    return False


@trigger("c04_extended_after_history")
def _c04_extended_after_history(plan, violation, entry):
    """The query is extended (`with query: Pred(..)`) after it has already been evaluated (completely or partly)."""
    if violation.get("oracle") not in entry.get("oracles", []):
        return False
    seen = set()
    for op in plan["ops"]:
        if op[0] in ("full", "take", "fault", "probe", "the", "thefault", "probe_the") and len(op) > 1:
            seen.add("q" + str(op[1])[1:])
        if op[0] == "extend" and ("q" + str(op[1])[1:]) in seen:
            return True
    return False


def classify(prop_id: str, plan: dict, violation: dict) -> Optional[dict]:
    """Return the open finding whose trigger matches this minimised failing plan, if any."""
    for entry in load().get("open", []):
        if entry.get("property") != prop_id:
            continue
        t = TRIGGERS.get(entry.get("trigger"))
        if t is not None and t.__code__.co_argcount == 3:
            try:
                if t(plan, violation, entry):
                    return entry
            except Exception:
                pass
            continue
        if t is None:
            continue
        try:
            if t(plan, violation):
                return entry
        except Exception:
            continue
    return None
