"""Known findings: /verif/known_findings.json is committed and never written at run time.

  fixed: list of lines "fixed: property=<id> <commit> <what failed>"   (suppress nothing)
  open:  list of {"id", "property", "what", "trigger"}                 (trigger = name of a predicate below)

A trigger is a predicate over the *minimised plan and the violated oracle* (the input/history that fails),
never over "the check failed".  A violation that no listed trigger matches is reported as VIOLATION.
"""
from __future__ import annotations

import json
import os
from typing import Optional

VERIF = os.path.dirname(os.path.dirname(os.path.abspath(__file__)))
PATH = os.path.join(VERIF, "known_findings.json")

TRIGGERS = {}


def trigger(name):
    def deco(f):
        TRIGGERS[name] = f
        return f
    return deco


def load():
    try:
        with open(PATH) as f:
            return json.load(f)
    except FileNotFoundError:
        return {"fixed": [], "open": []}


def classify(prop_id: str, plan: dict, violation: dict) -> Optional[dict]:
    """Return the open finding whose trigger matches this minimised failing plan, if any."""
    for entry in load().get("open", []):
        if entry.get("property") != prop_id:
            continue
        t = TRIGGERS.get(entry.get("trigger"))
        if t is None:
            continue
        try:
            if t(plan, violation):
                return entry
        except Exception:
            continue
    return None
