"""Simulator-owned user side: data classes, value type, predicates, constructors, domains.

These are the places where a deployment's own code sits.  Every call the library makes into them is
an event of the simulation (kernel.cb) and a possible fault point.  Nothing inside the library is
stubbed.

Classes are defined once per process; `reset.reset()` clears the library's registry between runs and
`build_world` constructs the run's objects from a JSON-able spec.
"""
from __future__ import annotations

from dataclasses import dataclass, field
from typing import Any, Dict, List, Optional

from . import libpath  # noqa: F401
from .kernel import cb, SimFault

from entity_query_language import symbol, predicate, Predicate

FIELDS = frozenset(("a", "b", "c", "tags", "peer", "kids", "meta"))
_get = object.__getattribute__


def lab(o) -> Any:
    """Harness label of a value (never goes through the instrumented getters)."""
    if isinstance(o, bool) or o is None:
        return o
    if isinstance(o, int):
        return int(o)
    if isinstance(o, str):
        return o
    if isinstance(o, (list, tuple)):
        return [lab(x) for x in o]
    try:
        return _get(o, "_lab")
    except AttributeError:
        pass
    # an object the engine constructed (rule inference): structural label
    if isinstance(o, _Base):
        d = _get(o, "__dict__")
        return (type(o).__name__,) + tuple((k, lab(v)) for k, v in sorted(d.items()) if k in o.__dataclass_fields__)
    return ("?", type(o).__name__)


class V(int):
    """Attribute value: an int whose rich comparisons are user callbacks."""
    __slots__ = ()

    def __lt__(self, o):
        cb("cmp", int(self), "<")
        return int.__lt__(self, o)

    def __le__(self, o):
        cb("cmp", int(self), "<=")
        return int.__le__(self, o)

    def __gt__(self, o):
        cb("cmp", int(self), ">")
        return int.__gt__(self, o)

    def __ge__(self, o):
        cb("cmp", int(self), ">=")
        return int.__ge__(self, o)

    def __eq__(self, o):
        cb("cmp", int(self), "==")
        return int.__eq__(self, o)

    def __ne__(self, o):
        cb("cmp", int(self), "!=")
        return int.__ne__(self, o)

    __hash__ = int.__hash__

    def __repr__(self):
        return f"V{int(self)}"


class _Base:
    def __getattribute__(self, name):
        if name in FIELDS:
            cb("get", lab(self), name)
        return _get(self, name)


@symbol
@dataclass(eq=False, repr=False)
class Item(_Base):
    a: Any = 0
    b: Any = 0
    c: Any = 0
    tags: Any = field(default_factory=list)
    peer: Any = None
    kids: Any = field(default_factory=list)
    meta: Any = field(default_factory=dict)

    def m0(self):
        cb("call", lab(self), "m0")
        return _get(self, "a")

    def m1(self, k):
        cb("call", lab(self), "m1")
        v = _get(self, "b")
        return None if v is None else V(v + k)

    def __repr__(self):
        return f"<{lab(self)}>"


@symbol
@dataclass(eq=False, repr=False)
class Gadget(Item):
    pass


@dataclass(eq=False, repr=False)
class Widget(Item):          # deliberately NOT decorated: inherits the hybrid constructor of Item
    pass


@symbol
@dataclass(eq=False, repr=False)
class Twin(Item):
    """Value equality: two distinct Twin objects with the same (a, b, c) compare equal and hash alike, as
    dataclass(eq=True, unsafe_hash=True) user classes do.  The engine must still tell them apart by identity."""

    def __eq__(self, other):
        cb("cmp", lab(self), "==obj")
        if not isinstance(other, Twin):
            return NotImplemented
        return (_get(self, "a"), _get(self, "b"), _get(self, "c")) == (_get(other, "a"), _get(other, "b"), _get(other, "c"))

    def __ne__(self, other):
        r = self.__eq__(other)
        return r if r is NotImplemented else not r

    def __hash__(self):
        return hash((int(_get(self, "a")), int(_get(self, "b")), int(_get(self, "c"))))


# ---- classes built by rule heads (constructor callbacks)

@symbol
@dataclass(eq=False, repr=False)
class View(_Base):
    def __repr__(self):
        return repr(lab(self))


@dataclass(eq=False, repr=False)
class Pair(View):
    l: Any = None
    r: Any = None

    def __post_init__(self):
        cb("init", "Pair", None)


@dataclass(eq=False, repr=False)
class Solo(View):
    of: Any = None

    def __post_init__(self):
        cb("init", "Solo", None)


@dataclass(eq=False, repr=False)
class Tagged(View):
    of: Any = None
    k: Any = None

    def __post_init__(self):
        cb("init", "Tagged", None)


# ---- function predicates

@predicate
def p_odd(x):
    cb("pred", "p_odd", lab(x))
    return x.a % 2 == 1


@predicate
def p_ge(x, k):
    cb("pred", "p_ge", lab(x))
    return x.a >= k


@predicate
def p_link(x, y):
    cb("pred", "p_link", (lab(x), lab(y)))
    return x.b == y.a


@predicate
def p_has(x, k):
    cb("pred", "p_has", lab(x))
    return k in _get(x, "tags")


@predicate
def p_calls(x):
    """A user predicate that calls another user predicate (must run concretely all the way down)."""
    cb("pred", "p_calls", lab(x))
    r = p_odd(x)
    return r is True or r is False and False


@predicate
def p_makes(x):
    """A user predicate that constructs a @symbol instance: concretely that is a real Solo whose field is x."""
    cb("pred", "p_makes", lab(x))
    s = Solo(of=x)
    return type(s) is Solo and _get(s, "of") is x and x.a >= 2


@predicate
def p_inner(x):
    """A user predicate that, while an outer evaluation is running, opens its OWN symbolic block, builds an inner
    query with a class predicate there and evaluates it inside that block.  evaluate() must give the plain-Python
    answer there too; the expected answer is computed directly and both are reported to the seam."""
    cb("pred", "p_inner", lab(x))
    from entity_query_language import symbolic_mode, let, an, entity
    with symbolic_mode():
        y = let(Item, [x])
        # a function predicate whose body constructs a @symbol instance (class predicates are not used here: built
        # inside an enclosing `with query:` block they are implicitly bound to that query's variable, by design)
        q = an(entity(y, p_makes(y)))
        rows = list(q.evaluate())
    got = len(rows) == 1 and rows[0] is x
    expected = bool(_get(x, "a") >= 2)
    cb("inner_eval", lab(x), (got, expected, len(rows)))
    return got


class OtherContext:
    """A second contextvars.Context (what another thread or asyncio task has): blocks entered there must not be
    visible here and vice versa.  Deterministic stand-in for a concurrently running actor: it only ever runs at
    points the plan (or a user callback) chooses."""

    def __init__(self):
        import contextvars
        self.ctx = contextvars.copy_context()
        self.cm = None
        self.kind = None

    def run(self, fn, *a):
        return self.ctx.run(fn, *a)

    def enter(self, kind="sym"):
        from entity_query_language import symbolic_mode, rule_mode
        if self.cm is None:
            self.cm = symbolic_mode() if kind == "sym" else rule_mode()
            self.kind = kind
            self.ctx.run(self.cm.__enter__)

    def leave(self):
        if self.cm is not None:
            cm, self.cm, self.kind = self.cm, None, None
            self.ctx.run(cm.__exit__, None, None, None)

    def mode_seen_there(self):
        from entity_query_language.symbolic import _symbolic_mode
        return self.ctx.run(_symbolic_mode.get)


OTHER = None      # set per run by the executor


@predicate
def p_ctx(x):
    """While the evaluation runs, 'another task' (a second Context) enters a symbolic block on one call and leaves it
    on the next.  That must not be visible to this evaluation."""
    cb("pred", "p_ctx", lab(x))
    o = OTHER
    if o is not None:
        if o.cm is None:
            o.enter("sym")
        else:
            o.leave()
    return x.a >= 1


# ---- class predicates

@dataclass(eq=False, repr=False)
class IsBig(Predicate):
    x: Any
    k: Any = 2

    def __call__(self):
        cb("cpred", "IsBig", lab(self.x))
        return self.x.a > self.k


@dataclass(eq=False, repr=False)
class Linked(Predicate):
    x: Any
    y: Any

    def __call__(self):
        cb("cpred", "Linked", (lab(self.x), lab(self.y)))
        return self.x.a == self.y.b


CLASSES = {"Item": Item, "Gadget": Gadget, "Widget": Widget, "Twin": Twin, "View": View, "Pair": Pair, "Solo": Solo,
           "Tagged": Tagged}
FPREDS = {"p_odd": (p_odd, 1), "p_ge": (p_ge, 2), "p_link": (p_link, 2), "p_has": (p_has, 2),
          "p_calls": (p_calls, 1), "p_makes": (p_makes, 1), "p_inner": (p_inner, 1), "p_ctx": (p_ctx, 1)}
CPREDS = {"IsBig": (IsBig, 1), "IsBigK": (IsBig, 2), "Linked": (Linked, 2)}


# ------------------------------------------------------------------------------------------ domains

class OneShot:
    """One-shot iterator object over a list: every pull is an event and a possible stream fault."""

    def __init__(self, name, items, fail_at=None, stop_at=None):
        self.name, self.items, self.pos = name, items, 0
        self.fail_at, self.stop_at = fail_at, stop_at
        self.pulls: List[int] = []     # positions pulled, in order (the pull log)
        self.iters = 0

    def __iter__(self):
        self.iters += 1
        cb("iter", self.name, self.iters)
        return self

    def __next__(self):
        i = self.pos
        if self.stop_at is not None and i >= self.stop_at:
            raise StopIteration
        if i >= len(self.items):
            cb("pull_end", self.name, i)
            raise StopIteration
        if self.fail_at is not None and i == self.fail_at:
            self.fail_at = None
            cb("pull_fail", self.name, i)
            raise SimFault(f"stream {self.name} fails at element {i}")
        self.pos = i + 1
        self.pulls.append(i)
        cb("pull", self.name, i)
        return self.items[i]


def one_shot_generator(stream: OneShot):
    """Same stream exposed as a real generator (the other way users hand over lazy data)."""
    for x in stream:
        yield x


class LoggingCollection:
    """Re-iterable collection: a second iter() or a second pull of an element is observable."""

    def __init__(self, name, items):
        self.name, self.items = name, items
        self.pulls: List[int] = []
        self.iters = 0

    def __iter__(self):
        self.iters += 1
        cb("iter", self.name, self.iters)
        return self._gen()

    def _gen(self):
        for i, x in enumerate(self.items):
            self.pulls.append(i)
            cb("pull", self.name, i)
            yield x


# ------------------------------------------------------------------------------------------ world

class World:
    """objects: label -> object; domains: name -> list of labels (the user's collections)."""

    def __init__(self, spec: dict):
        self.spec = spec
        self.objects: Dict[str, Any] = {}
        self.lists: Dict[str, list] = {}
        for o in spec["objects"]:
            cls = CLASSES[o["t"]]
            kw = {}
            for k, v in o.get("f", {}).items():
                kw[k] = v
            obj = cls(**{k: self._val(k, v) for k, v in kw.items() if k not in ("peer", "kids")})
            if "meta" not in kw:
                object.__setattr__(obj, "meta", {"k": self._val("a", kw.get("c", 1))})
            object.__setattr__(obj, "_lab", o["l"])
            self.objects[o["l"]] = obj
        for o in spec["objects"]:
            f = o.get("f", {})
            obj = self.objects[o["l"]]
            if f.get("peer") is not None:
                object.__setattr__(obj, "peer", self.objects[f["peer"]])
            if f.get("kids"):
                object.__setattr__(obj, "kids", [self.objects[k] for k in f["kids"]])
        for name, labels in spec["domains"].items():
            self.lists[name] = [self.objects[l] for l in labels]

    @staticmethod
    def _val(k, v):
        if k == "tags":
            return [V(x) if isinstance(x, int) and not isinstance(x, bool) else x for x in v]
        if k == "meta":
            return {kk: (V(x) if isinstance(x, int) and not isinstance(x, bool) else x) for kk, x in v.items()}
        if isinstance(v, int) and not isinstance(v, bool):
            return V(v)
        return v

    def snapshot(self):
        """Identity sequence of every user collection and the field values of every user object."""
        return (
            tuple((n, tuple(id(x) for x in l)) for n, l in sorted(self.lists.items())),
            tuple((l, tuple((k, id(v) if isinstance(v, _Base) else tuple(sorted((kk, lab(x)) for kk, x in v.items()))
                             if isinstance(v, dict) else lab(v) if not isinstance(v, list)
                             else tuple(id(e) if isinstance(e, _Base) else lab(e) for e in v))
                            for k, v in sorted(_get(o, "__dict__").items()) if k != "_lab"))
                  for l, o in sorted(self.objects.items())),
        )
