"""Run-time pass-through wrappers installed from the harness (no source hooks, DESIGN §1.3).

* cache probes: count coverage checks that succeeded and entries served, per operator kind (C05 non-vacuity)
* shadow model: every IndexedCache the engine creates gets a list-of-(binding, output) reference model that is
  fed every real insert / check / retrieve and compared (C20, engine histories)
"""
from __future__ import annotations

from typing import Any, Dict, Optional

from . import libpath  # noqa: F401
from . import kernel

import entity_query_language.symbolic as S
import entity_query_language.cache_data as CD
from entity_query_language.utils import All

_installed = False
PROBES_ON = False
SHADOW_ON = False
SHADOW_JUDGE_SIBLINGS = False    # judge retrievals whose lookup path crosses a mixed wildcard/concrete level (KF-C20-1)
_models: Dict[int, Any] = {}     # id(cache) -> (cache, ShadowModel); the cache is kept alive by the tuple


def _op_kind(op, cache) -> str:
    name = type(op).__name__
    if cache is getattr(op, "right_cache", None):
        return name + ".right"
    if cache is getattr(op, "left_cache", None):
        return name + ".left"
    return name


class ShadowModel:
    def __init__(self, keys):
        self.keys = list(keys)
        self.store = []          # [(binding {key: id_}, output)]
        self.all_covered = False  # set by an explicit full-coverage mark; coverage verdicts are then not judged

    def insert(self, binding, out):
        for i, (b, _) in enumerate(self.store):
            if b == binding:
                self.store[i] = (b, out)
                return
        self.store.append((binding, out))

    def check(self, lookup):
        return any(all(k in lookup and lookup[k] == v for k, v in b.items()) for b, _ in self.store)

    def retrieve(self, lookup):
        out = []
        for b, o in self.store:
            if all(lookup[k] == v for k, v in b.items() if k in lookup):
                merged = dict(lookup)
                merged.update(b)
                out.append((tuple(sorted(merged.items())), repr(o)))
        return sorted(out)

    def has_sibling_shape(self, lookup):
        sorted_keys = sorted(self.keys)
        """True iff the trie path of some stored entry that this lookup must return crosses a trie node that holds
        both a wildcard child and a concrete child (whatever the sibling's own compatibility): the shape the known
        retrieval defect KF-C20-1 needs (retrieve follows only one of the two kinds of branch at such a node)."""
        keys = sorted_keys
        bindings = [b for b, _ in self.store]
        comp = [b for b in bindings if all(lookup[k] == v for k, v in b.items() if k in lookup)]
        for e in comp:
            for e2 in bindings:
                if e2 is e:
                    continue
                for k in keys:
                    in1, in2 = k in e, k in e2
                    if in1 and in2:
                        if e[k] != e2[k]:
                            break           # different concrete children: paths diverge without mixing kinds
                        continue
                    if not in1 and not in2:
                        continue
                    return True             # same node, one wildcard child and one concrete child
        return False


def _ids(d):
    out = {}
    for k, v in d.items():
        out[k] = getattr(v, "id_", None) if not isinstance(v, (int, str)) else v
    return out


def _model(cache) -> ShadowModel:
    ent = _models.get(id(cache))
    if ent is None or ent[0] is not cache:
        ent = (cache, ShadowModel(cache.keys))
        _models[id(cache)] = ent
    m = ent[1]
    if m.keys != list(cache.keys):
        # keys were (re)assigned: the real cache clears itself, so does the model
        m.keys = list(cache.keys)
        m.store = []
        m.all_covered = False
    return m


def reset_shadow():
    _models.clear()


def install():
    global _installed
    if _installed:
        return
    _installed = True

    # ---------------------------------------------------------------- cache probes
    orig_final = S.BinaryOperator.yield_final_output_from_cache

    def yield_final_output_from_cache(self, variables_sources, cache=None):
        sim = kernel.CURRENT
        if not PROBES_ON or sim is None:
            yield from orig_final(self, variables_sources, cache)
            return
        c = self._cache_ if cache is None else cache
        kind = _op_kind(self, c)
        sim.counters["probe:cache_covered:" + kind] += 1
        sim.counters["probe:cache_covered"] += 1
        wild = any(All in lvl for lvl in _levels(c.cache))
        for out in orig_final(self, variables_sources, cache):
            sim.counters["probe:cache_served:" + kind] += 1
            sim.counters["probe:cache_served"] += 1
            if wild:
                sim.counters["probe:cache_served_from_index_with_wildcard_level"] += 1
            yield out

    S.BinaryOperator.yield_final_output_from_cache = yield_final_output_from_cache

    # ---------------------------------------------------------------- shadow model (C20 source 2)
    orig_insert = CD.IndexedCache.insert
    orig_check = CD.IndexedCache.check
    orig_retrieve = CD.IndexedCache.retrieve
    orig_clear = CD.IndexedCache.clear
    orig_mark = getattr(CD.IndexedCache, "mark_covered", None)

    def insert(self, assignment, output, index=True):
        sim = kernel.CURRENT
        if SHADOW_ON and sim is not None and index and self.keys:
            m = _model(self)
            b = {k: v for k, v in _ids(assignment).items() if k in self.keys}
            orig_insert(self, assignment, output, index)
            m = _model(self)
            m.insert(b, output)
            if not b:
                m.all_covered = True
            sim.counters["probe:engine_insert"] += 1
            if len(b) < len(self.keys):
                sim.counters["probe:engine_insert_partial_binding"] += 1
            return
        return orig_insert(self, assignment, output, index)

    def check(self, assignment):
        sim = kernel.CURRENT
        got = orig_check(self, assignment)
        if SHADOW_ON and sim is not None and self.keys:
            m = _model(self)
            l = {k: v for k, v in _ids(assignment).items() if k in self.keys}
            if l and not m.all_covered:
                want = m.check(l)
                sim.counters["probe:engine_check_judged"] += 1
                if bool(got) != want:
                    sim.violate("engine-check", {"lookup": l, "got": bool(got), "want": want,
                                                 "store": [(b, repr(o)) for b, o in m.store], "keys": m.keys})
            else:
                sim.counters["probe:engine_check_not_judged"] += 1
        return got

    def retrieve(self, assignment=None, cache=None, key_idx=0, result=None, from_index=True):
        sim = kernel.CURRENT
        top = cache is None and result is None and from_index and assignment is not None
        if not (SHADOW_ON and sim is not None and top and self.keys):
            yield from orig_retrieve(self, assignment, cache, key_idx, result, from_index)
            return
        m = _model(self)
        l = _ids(assignment)
        want = m.retrieve(l)
        sib = m.has_sibling_shape(l)
        got = []
        for r, o in orig_retrieve(self, assignment, cache, key_idx, result, from_index):
            got.append((tuple(sorted(_ids(r).items())), repr(o)))
            yield r, o
        # reached only when the consumer drained the retrieval (an abandoned one is not judged)
        sim.counters["probe:engine_retrieve_judged"] += 1
        if sib:
            sim.counters["probe:engine_sibling_level_on_lookup_path"] += 1
            if not SHADOW_JUDGE_SIBLINGS:
                return
        if sorted(got) != want:
            sim.violate("engine-retrieve", {"lookup": {k: v for k, v in l.items() if k in self.keys},
                                            "got": sorted(got), "want": want, "keys": m.keys,
                                            "store": [(b, repr(o)) for b, o in m.store], "sibling_trigger": sib})

    def clear(self):
        orig_clear(self)
        if SHADOW_ON and id(self) in _models:
            m = _model(self)
            m.store = []
            m.all_covered = False

    CD.IndexedCache.insert = insert
    CD.IndexedCache.check = check
    CD.IndexedCache.retrieve = retrieve
    CD.IndexedCache.clear = clear
    if orig_mark is not None:
        def mark_covered(self, assignment):
            orig_mark(self, assignment)
            if SHADOW_ON and self.keys and not any(k in assignment for k in self.keys):
                _model(self).all_covered = True
        CD.IndexedCache.mark_covered = mark_covered


def _levels(node):
    """All dict levels of a nested CacheDict."""
    out = []
    stack = [node]
    while stack:
        n = stack.pop()
        if isinstance(n, CD.CacheDict):
            out.append(n)
            stack.extend(n.values())
    return out
