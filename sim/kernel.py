"""Simulation kernel: global event sequence, event log, digest, counters, callback seam, caps.

One `Sim` exists per executed plan.  Everything that happens during a run that the oracles or the
replay digest care about goes through `Sim.event` and gets the next global sequence number.  The
kernel never draws randomness and never reads a clock (the only clock is the per-op SIGALRM
watchdog, which aborts the run as a harness error and can therefore never change a verdict).
"""
from __future__ import annotations

import hashlib
import signal
from collections import Counter
from typing import Any, List, Optional


class SimFault(Exception):
    """The injected fault: raised from a simulator-owned user callback / stream."""


class SimBudget(BaseException):
    """A cap (callbacks per op, next() per op) was exceeded. BaseException so nothing swallows it."""


class SimTimeout(BaseException):
    """Wall-clock watchdog of one op fired."""


class HarnessError(Exception):
    """The harness itself is broken (never reported as a violation)."""


class Violation:
    __slots__ = ("prop", "oracle", "op_index", "detail")

    def __init__(self, prop: str, oracle: str, op_index: int, detail: Any):
        self.prop, self.oracle, self.op_index, self.detail = prop, oracle, op_index, detail

    def to_json(self):
        return {"prop": self.prop, "oracle": self.oracle, "op_index": self.op_index, "detail": self.detail}

    def __repr__(self):
        return f"Violation({self.prop},{self.oracle},op={self.op_index},{self.detail!r})"


class Sim:
    CB_CAP = 200_000       # callbacks per op
    STEP_CAP = 50_000      # next() calls per op

    def __init__(self, prop: str):
        self.prop = prop
        self.seq = 0
        self.log: List[tuple] = []
        self.counters: Counter = Counter()
        self.violations: List[Violation] = []
        self.op_index = -1
        # callback seam state
        self.cb_enabled = False      # callbacks are events only while an op runs library code
        self.cb_in_op = 0            # callbacks seen in the current op
        self.cb_total = 0
        self.faultable_total = 0
        self.fault_at: Optional[int] = None   # raise SimFault at this callback index of the current op
        self.fault_kinds = None      # optional set restricting which callback kinds may fault
        self.faultable_in_op = 0     # callbacks of faultable kinds seen in the current op
        self.cb_observers = []       # functions(kind, who, what) run at every callback (C09 invariant)
        self.log_callbacks = True

    # ------------------------------------------------------------------ events
    def event(self, kind: str, *data):
        self.seq += 1
        self.log.append((self.op_index, kind) + data)
        return self.seq

    def count(self, name: str, n: int = 1):
        self.counters[name] += n

    def violate(self, oracle: str, detail: Any, op_index: Optional[int] = None):
        v = Violation(self.prop, oracle, self.op_index if op_index is None else op_index, detail)
        self.violations.append(v)
        self.event("VIOLATION", oracle)
        return v

    # ------------------------------------------------------------------ ops
    def begin_op(self, index: int, fault_at: Optional[int] = None):
        self.op_index = index
        self.cb_in_op = 0
        self.faultable_in_op = 0
        self.fault_at = fault_at

    def end_op(self):
        self.fault_at = None

    # ------------------------------------------------------------------ callback seam
    def callback(self, kind: str, who: Any = None, what: Any = None):
        """Called by every simulator-owned user callback (getter, method, comparison, predicate,
        constructor, stream pull).  Logs, runs observers, and raises the planned fault."""
        if not self.cb_enabled:
            return
        self.cb_in_op += 1
        self.cb_total += 1
        if self.cb_in_op > self.CB_CAP:
            raise SimBudget("callbacks per op")
        if self.log_callbacks:
            self.seq += 1
            self.log.append((self.op_index, "cb", kind, who, what))
        else:
            self.seq += 1
        for obs in self.cb_observers:
            obs(kind, who, what)
        if self.fault_kinds is not None and kind not in self.fault_kinds:
            return
        self.faultable_in_op += 1
        self.faultable_total += 1
        if self.fault_at is not None and self.faultable_in_op == self.fault_at:
            self.counters["fault_fired:" + kind] += 1
            self.counters["fault_fired"] += 1
            self.seq += 1
            self.log.append((self.op_index, "FAULT", kind, who, what))
            raise SimFault(f"injected at callback {self.faultable_in_op} ({kind} {who} {what})")

    # ------------------------------------------------------------------ digest
    def digest(self) -> str:
        h = hashlib.sha256()
        for rec in self.log:
            h.update(repr(rec).encode())
            h.update(b"\n")
        return h.hexdigest()


# The current simulation. World objects reach the seam through this module-level slot so that
# data classes can be defined once per process.
CURRENT: Optional[Sim] = None


def set_current(sim: Optional[Sim]):
    global CURRENT
    CURRENT = sim


def cb(kind: str, who: Any = None, what: Any = None):
    s = CURRENT
    if s is not None and s.cb_enabled:
        s.callback(kind, who, what)


class op_watchdog:
    """SIGALRM watchdog around one op: a hang becomes SimTimeout (harness error or no-result oracle)."""

    def __init__(self, seconds: int = 10):
        self.seconds = seconds

    def _fire(self, signum, frame):
        raise SimTimeout(f"op exceeded {self.seconds}s")

    def __enter__(self):
        self.prev = signal.signal(signal.SIGALRM, self._fire)
        signal.alarm(self.seconds)
        return self

    def __exit__(self, *exc):
        signal.alarm(0)
        signal.signal(signal.SIGALRM, self.prev)
        return False
