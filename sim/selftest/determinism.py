"""Determinism self-test (DESIGN §6.1).

--emit : execute n plans of a property twice in this process (reset() between) and print one digest line
         per plan; exits 3 on an in-process mismatch.  ./check runs this in two fresh interpreters under two
         PYTHONHASHSEED values and diffs the output.
full   : `python -m sim.selftest.determinism --all --n 2000` additionally compares 1 vs 16 workers and a
         shuffled execution order (run as part of thorough tiers / by hand after each new seam).
"""
from __future__ import annotations

import argparse
import os
import random
import sys


def digests(prop, tier, seed, indices, campaign):
    from ..runner import run_seed
    out = []
    for i in indices:
        s = run_seed(seed, prop.id, tier, i, campaign)
        plan = prop.gen(random.Random(s), tier, campaign)
        plan.update({"prop": prop.id, "seed": s, "index": i, "campaign": campaign})
        r = prop.execute(plan)
        out.append((i, r.digest, len(r.violations)))
    return out


def main(argv=None):
    ap = argparse.ArgumentParser()
    ap.add_argument("--prop", default=None)
    ap.add_argument("--all", action="store_true")
    ap.add_argument("--tier", default="quick")
    ap.add_argument("--n", type=int, default=24)
    ap.add_argument("--emit", action="store_true")
    ap.add_argument("--short", action="store_true")
    args = ap.parse_args(argv)
    from .. import props
    from ..reset import freeze_heap
    seed = int(os.environ.get("VERIF_SEED", "0") or 0)
    ids = props.CLAIMED if (args.all or args.short or not args.prop) else [args.prop.upper()]
    if args.short:
        args.n = 8
    bad = 0
    for pid in ids:
        prop = props.load(pid)
        freeze_heap()
        for (campaign, _, _) in prop.campaigns[args.tier]:
            # campaigns whose single plans take seconds (large worlds) contribute two plans
            n_c = 1 if campaign in getattr(prop, "chunk_of", {}) else args.n
            idx = list(range(n_c))
            a = digests(prop, args.tier, seed, idx, campaign)
            # second pass in a different order: catches state leaking between runs despite reset()
            order = list(idx)
            random.Random(12345).shuffle(order)
            b = dict((i, (d, v)) for i, d, v in digests(prop, args.tier, seed, order, campaign))
            for i, d, v in a:
                if b[i] != (d, v):
                    bad += 1
                    print(f"MISMATCH {pid} {campaign} index={i}", file=sys.stderr)
                if args.emit:
                    print(pid, campaign, i, d, v)
        if not args.emit:
            print(f"{pid}: {'ok' if not bad else 'MISMATCH'}")
    return 3 if bad else 0


if __name__ == "__main__":
    sys.exit(main())
