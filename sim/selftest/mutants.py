"""Hand-written mutants for the sensitivity self-test (DESIGN §6.2).

Each mutant is a list of (file under src/entity_query_language, old text, new text) edits that still import
and (verified when the mutant was added) still pass the repository's 70 tests, plus the claimed properties whose
quick check must report a VIOLATION for it.  The pre-fix sources of the defects repaired in /repo are kept as
mutants too, so a regression of a fix is known to be caught.
"""

S = "symbolic.py"
C = "cache_data.py"
H = "hashed_data.py"
P = "predicate.py"
U = "utils.py"

MUTANTS = [
    # ---------------------------------------------------------------- regressions of the repairs
    {"name": "revert_dup_domain_fix", "expect": ["C04"],
     "edits": [(H, """            if v.id_ in self.values:
                # already memoised (and yielded above): a repeated item must not be yielded on the first pass only
                continue
""", "")]},
    {"name": "revert_premature_ack_fix", "expect": ["C04"],
     "edits": [(C, """        if not assignment:
            # Full coverage is only recorded (see IndexedCache.mark_covered) once the enumeration it vouches for has
            # run to completion; recording it here would make an abandoned enumeration look complete.
            return False
""", """        if not assignment:
            self.all_seen = True
            self.seen.append(assignment)
            return False
""")]},
    {"name": "an_evaluate_no_reset_on_early_exit", "expect": ["C04"],
     "edits": [(S, """        finally:
            # also when the iteration is abandoned or aborted by an exception, otherwise the next evaluation sees
            # stale state. The operand generators restore state when they exit, so finalize them first.
            results.close()
            self._reset_cache_()
""", """        finally:
            results.close()
        self._reset_cache_()
""")]},
    {"name": "revert_forall_literal_fix", "expect": ["C04", "C05"],
     "edits": [(S, """        return [v.id_ for v in self.condition._unique_variables_.difference(self.left._unique_variables_)
                if not isinstance(v.value, Literal)]
""", """        return [v.id_ for v in self.condition._unique_variables_.difference(self.left._unique_variables_)]
""")]},
    {"name": "revert_an_mode_scope_fix", "expect": ["C08"],
     "edits": [(S, """            while True:
                # Symbolic mode is switched off only while the evaluation advances, not while this generator is
                # suspended at the yield below, otherwise it would change the mode of the code consuming the results
                # (and restore a stale mode whenever it is resumed or finalized somewhere else).
                with symbolic_mode(mode=None):
                    assert not in_symbolic_mode()
                    try:
                        result = self._process_result_(next(results))
                    except StopIteration:
                        break
                yield result
""", """            with symbolic_mode(mode=None):
                assert not in_symbolic_mode()
                yield from map(self._process_result_, results)
""")]},
    {"name": "revert_the_mode_fix", "expect": ["C09"],
     "edits": [(S, """            with symbolic_mode(mode=None):
                result = self._evaluate_()
            result = self._process_result_(result)
""", """            result = self._evaluate_()
            result = self._process_result_(result)
""")]},
    {"name": "revert_the_set_of_fix", "expect": ["C06"],
     "edits": [(S, """        elif self._var_:
            # a set_of description has no single selected variable
            result[self._id_] = result[self._var_._id_]
""", """        else:
            result[self._id_] = result[self._var_._id_]
""")]},
    {"name": "revert_lazy_combinations_fix", "expect": ["C07"],
     "edits": [(U, """    first, *rest = generators_dict.values()
    rest_values = None
    for value in first:
        if rest_values is None:
            rest_values = [list(values) for values in rest]
        for combination in itertools.product(*rest_values):
            yield dict(zip(keys, (value,) + combination))
""", """    for combination in itertools.product(*generators_dict.values()):
        yield dict(zip(keys, combination))
""")]},
    {"name": "revert_conclusion_clear_in_finally", "expect": [],
     "note": "the defect this fix repaired was found with falsy attribute values; with truthy-only worlds no explored "
             "history differs, and in the known:falsy_operand campaign its failures match KF-C04-9's trigger, so a "
             "regression of this fix is NOT detected by the registered checks (documented limit, DESIGN 10.9)",
     "edits": [("conclusion_selector.py", """                try:
                    yield left_value
                finally:
                    self._conclusion_.clear()
""", """                yield left_value
                self._conclusion_.clear()
"""), ("conclusion_selector.py", """                try:
                    yield output
                finally:
                    # also when the consumer stops iterating or raises while applying the conclusions
                    self._conclusion_.clear()
""", """                yield output
                self._conclusion_.clear()
""")]},
    {"name": "revert_lazy_registry_class_lookup", "expect": ["C14"],
     "edits": [("predicate.py", """        domain = From((v for a, v in yield_class_values_from_cache(Variable._cache_, symbolic_cls, from_index=False)))""",
                """        domain = From((v for a, v in yield_class_values_from_cache(Variable._cache_, symbolic_cls, from_index=False,
                                                                   cache_keys=cache_keys)))""")]},
    # ---------------------------------------------------------------- new mutants
    {"name": "and_does_not_restore_left_eval_parent", "expect": [],
     "note": "its effect is visible only in query shapes inside the known-defect regions (C05 known:* campaigns fail "
             "more often with it), where a failure cannot be told apart from the listed findings; outside them no "
             "explored history differs",
     "edits": [(S, """                finally:
                    self.right._eval_parent_ = right_prev
        finally:
            self.left._eval_parent_ = left_prev


@dataclass(eq=False)
class OR(""", """                finally:
                    self.right._eval_parent_ = right_prev
        finally:
            pass


@dataclass(eq=False)
class OR(""")]},
    {"name": "and_caches_left_binding_as_right_coverage", "expect": ["C05"],
     "edits": [(S, """                        self._is_false_ = self.right._is_false_
                        self.update_cache(right_value, self.right_cache)
                        yield output
""", """                        self._is_false_ = self.right._is_false_
                        self.update_cache(left_value, self.right_cache)
                        yield output
""")]},
    {"name": "cache_serves_false_entries_without_dedup_flip", "expect": ["C05"],
     "edits": [(S, """            if is_false and self._is_duplicate_output_(output):
                continue
            yield output
        if not entered:""", """            if not is_false and self._is_duplicate_output_(output):
                continue
            yield output
        if not entered:""")]},
    {"name": "seenset_check_too_generous", "expect": ["C20"],
     "note": "also changes query results, but only in shapes inside the known-defect regions of C05",
     "edits": [(C, """            if all(assignment[k] == v if k in assignment else False for k, v in constraint.items()):
                return True""", """            if all(assignment[k] == v if k in assignment else True for k, v in constraint.items()):
                return True""")]},
    {"name": "the_raises_on_third_solution", "expect": ["C06"],
     "edits": [(S, """        result = None
        for sol in sol_gen:
            if result is None:
                result = sol
                result.update(sources)
            else:
                raise MultipleSolutionFound(result, sol)
""", """        result = None
        n_solutions = 0
        for sol in sol_gen:
            n_solutions += 1
            if result is None:
                result = sol
                result.update(sources)
            elif n_solutions > 2:
                raise MultipleSolutionFound(result, sol)
""")]},
    {"name": "the_no_solution_raises_multiple", "expect": ["C06"],
     "edits": [(S, """            else:
                raise NoSolutionFound(self._child_)""", """            else:
                raise MultipleSolutionFound(None, None)""")]},
    {"name": "domain_materialised_in_set_iterable", "expect": ["C07"],
     "edits": [(H, """    def set_iterable(self, iterable):
        if iterable and not isinstance(iterable, HashedIterable):
            self.iterable = (HashedValue(v) if not isinstance(v, HashedValue) else v for v in iterable)
""", """    def set_iterable(self, iterable):
        if iterable and not isinstance(iterable, HashedIterable):
            iterable = list(iterable)
            self.iterable = (HashedValue(v) if not isinstance(v, HashedValue) else v for v in iterable)
""")]},
    {"name": "an_evaluate_materialises", "expect": ["C07"],
     "edits": [(S, """        results = self._evaluate__()
        try:
            while True:""", """        results = iter(list(self._evaluate__()))
        try:
            while True:""")]},
    {"name": "domain_not_memoised", "expect": ["C07", "C04"],
     "edits": [(H, """            self.values[v.id_] = v
            yield v

    def __or__""", """            yield v

    def __or__""")]},
    {"name": "type_filter_eager", "expect": ["C07"],
     "edits": [(P, """            domain.domain = filter(lambda v: isinstance(v, symbolic_cls), domain.domain)""",
                """            domain.domain = [v for v in domain.domain if isinstance(v, symbolic_cls)]""")]},
    {"name": "symbolic_mode_without_finally", "expect": ["C08"],
     "edits": [(S, """        _set_symbolic_mode(mode)
        yield SymbolicExpression._current_parent_()
    finally:
        if query is not None:
            query.__exit__()
        _set_symbolic_mode(prev_mode)
""", """        _set_symbolic_mode(mode)
        yield SymbolicExpression._current_parent_()
        _set_symbolic_mode(prev_mode)
    finally:
        if query is not None:
            query.__exit__()
""")]},
    {"name": "symbolic_mode_restores_none", "expect": ["C08"], "tests_pass": False,
     "edits": [(S, """        if query is not None:
            query.__exit__()
        _set_symbolic_mode(prev_mode)
""", """        if query is not None:
            query.__exit__()
        _set_symbolic_mode(None)
""")]},
    {"name": "query_exit_does_not_pop_on_exception", "expect": ["C08"],
     "edits": [(S, """    def __exit__(self, *args):
        SymbolicExpression._symbolic_expression_stack_.pop()
""", """    def __exit__(self, *args):
        if args and args[0] is not None:
            return
        SymbolicExpression._symbolic_expression_stack_.pop()
""")]},
    {"name": "an_switches_mode_off_only_for_query_mode", "expect": ["C09"],
     "edits": [(S, """                with symbolic_mode(mode=None):
                    assert not in_symbolic_mode()
                    try:
                        result = self._process_result_(next(results))""", """                with symbolic_mode(mode=None if in_symbolic_mode(EQLMode.Query) else _symbolic_mode.get()):
                    try:
                        result = self._process_result_(next(results))""")]},
    {"name": "hybrid_new_registers_in_symbolic_mode", "expect": ["C14"],
     "edits": [(P, """        if in_symbolic_mode():
            return symbolic_new(symbolic_cls, *args, **kwargs)
        else:""", """        if in_symbolic_mode():
            if not args and not kwargs:
                instantiate_class_and_update_cache(symbolic_cls, original_new)
            return symbolic_new(symbolic_cls, *args, **kwargs)
        else:""")]},
    {"name": "registry_lookup_exact_type", "expect": ["C14"],
     "edits": [(C, """        cache_keys = [t for t in cache.keys() if isinstance(t, type) and issubclass(t, clazz)]""",
                """        cache_keys = [t for t in cache.keys() if isinstance(t, type) and (t is clazz or clazz in t.__bases__)]""")]},
    {"name": "indexed_cache_keys_not_sorted", "expect": [],
     "note": "benign: the nesting order is an internal choice no statement constrains; the check must stay silent",
     "edits": [(C, """        self._keys = list(sorted(keys))""", """        self._keys = list(keys)""")]},
    {"name": "indexed_cache_clear_keeps_coverage", "expect": ["C20"],
     "edits": [(C, """    def clear(self):
        self.cache.clear()
        self.seen_set.clear()
        self.flat_cache.clear()""", """    def clear(self):
        self.cache.clear()
        self.flat_cache.clear()""")]},
    {"name": "retrieve_skips_wildcard_on_concrete_miss", "expect": ["C20"],
     "edits": [(C, """                wildcard = cache.get(All)
                if wildcard is not None:
                    yield from self._yield_result(assignment, wildcard, key_idx, result)
                else:
                    self.search_count += 1
                return""", """                self.search_count += 1
                return""")]},
]
