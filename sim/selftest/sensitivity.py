"""Sensitivity self-test (DESIGN §6.2): every mutant / seeded change must be reported by the quick check of the
properties it breaks, and the other checks must stay silent unless the notes say the change breaks them too.

Mutants are applied to a scratch copy of /repo (under $TMPDIR, removed right after); the checks are pointed at
it with VERIF_REPO_SRC.  /repo itself is never modified.

  python -m sim.selftest.sensitivity                 all hand-written mutants, expected properties only
  python -m sim.selftest.sensitivity --seeded        the changes kept under /verif/seeded/<id>/
  python -m sim.selftest.sensitivity --name X --all-props
"""
from __future__ import annotations

import argparse
import json
import os
import shutil
import subprocess
import sys
import tempfile
import time
from concurrent.futures import ThreadPoolExecutor

VERIF = os.path.dirname(os.path.dirname(os.path.dirname(os.path.abspath(__file__))))
REPO = os.environ.get("VERIF_REPO", "/repo")
PROPS = ["C04", "C05", "C06", "C07", "C08", "C09", "C14", "C20"]


def make_scratch(name):
    d = tempfile.mkdtemp(prefix=f"eqlmut_{name}_")
    shutil.copytree(os.path.join(REPO, "src"), os.path.join(d, "src"))
    if os.path.isdir(os.path.join(REPO, "test")):
        shutil.copytree(os.path.join(REPO, "test"), os.path.join(d, "test"))
    for f in ("pyproject.toml",):
        if os.path.exists(os.path.join(REPO, f)):
            shutil.copy(os.path.join(REPO, f), d)
    return d


def apply_edits(d, edits):
    for rel, old, new in edits:
        p = os.path.join(d, "src", "entity_query_language", rel)
        s = open(p).read()
        if old not in s:
            raise RuntimeError(f"mutant does not apply to {rel}: text not found")
        open(p, "w").write(s.replace(old, new, 1))


def apply_patch(d, patch_file):
    r = subprocess.run(["patch", "-p1", "-s", "-i", patch_file], cwd=d, capture_output=True, text=True)
    if r.returncode != 0:
        raise RuntimeError(f"patch does not apply: {r.stdout}{r.stderr}")


def run_tests(d):
    env = dict(os.environ, PYTHONPATH=os.path.join(d, "src"), PYTHONDONTWRITEBYTECODE="1")
    r = subprocess.run(["/venv/bin/python", "-m", "pytest", "-q", "-p", "no:cacheprovider", "-x", "--deselect",
                        "test/test_rendering.py", "test"], cwd=d, env=env, capture_output=True, text=True, timeout=900)
    tail = (r.stdout.strip().splitlines() or [""])[-1]
    return r.returncode == 0, tail


def run_check(d, prop, tier="quick", workers=8, extra=()):
    env = dict(os.environ, VERIF_REPO_SRC=os.path.join(d, "src"), VERIF_WORKERS=str(workers))
    t0 = time.time()
    r = subprocess.run([os.path.join(VERIF, "check"), prop, "--tier", tier, "--no-evidence", *extra], cwd=VERIF,
                       env=env, capture_output=True, text=True, timeout=3600)
    viol = [l for l in r.stdout.splitlines() if l.startswith("VIOLATION")]
    detail = [l for l in r.stdout.splitlines() if l.startswith("  oracle=")]
    return {"prop": prop, "exit": r.returncode, "violations": viol, "oracle": detail[:1],
            "wall": round(time.time() - t0, 1), "tail": r.stdout[-600:] if r.returncode not in (0, 1) else ""}


def evaluate(name, apply_fn, expect, props, check_tests=True, workers=8):
    d = make_scratch(name)
    try:
        apply_fn(d)
        out = {"name": name, "expect": expect}
        if check_tests:
            ok, tail = run_tests(d)
            out["tests_pass"] = ok
            out["tests_tail"] = tail
        with ThreadPoolExecutor(max_workers=2) as ex:
            results = list(ex.map(lambda p: run_check(d, p, workers=workers), props))
        out["results"] = results
        out["caught_by"] = [r["prop"] for r in results if r["exit"] == 1]
        out["errors"] = [r for r in results if r["exit"] not in (0, 1)]
        out["missed"] = [p for p in expect if p in props and p not in out["caught_by"]]
        out["unexpected"] = [p for p in out["caught_by"] if p not in expect]
        return out
    finally:
        shutil.rmtree(d, ignore_errors=True)


def main(argv=None):
    ap = argparse.ArgumentParser()
    ap.add_argument("--name", default=None)
    ap.add_argument("--seeded", action="store_true")
    ap.add_argument("--all-props", action="store_true")
    ap.add_argument("--no-tests", action="store_true")
    ap.add_argument("--json", default=None)
    args = ap.parse_args(argv)
    jobs = []
    if args.seeded:
        base = os.path.join(VERIF, "seeded")
        for sid in sorted(os.listdir(base)):
            pf = os.path.join(base, sid, "patch.diff")
            if not os.path.exists(pf) or (args.name and args.name != sid):
                continue
            meta = json.load(open(os.path.join(base, sid, "meta.json")))
            jobs.append((sid, (lambda d, pf=pf: apply_patch(d, pf)),
                         meta.get("expected_detected_by", meta.get("breaks", []))))
    else:
        from .mutants import MUTANTS
        for m in MUTANTS:
            if args.name and args.name != m["name"]:
                continue
            jobs.append((m["name"], (lambda d, m=m: apply_edits(d, m["edits"])), m["expect"]))
    report = []
    bad = 0
    for name, fn, expect in jobs:
        props = PROPS if args.all_props else (expect or PROPS)
        try:
            out = evaluate(name, fn, expect, props, check_tests=not args.no_tests)
        except RuntimeError as e:
            print(f"{name}: ERROR {e}")
            bad += 1
            continue
        report.append(out)
        status = "ok"
        if out["missed"]:
            status = "MISSED " + ",".join(out["missed"])
            bad += 1
        if out["errors"]:
            status += " HARNESS-ERROR " + ",".join(r["prop"] for r in out["errors"])
            bad += 1
        print(f"{name}: tests_pass={out.get('tests_pass')} expect={expect} caught_by={out['caught_by']} "
              f"unexpected={out['unexpected']} -> {status}")
        for r in out["results"]:
            if r["exit"] == 1:
                print(f"     {r['prop']}: {r['oracle'][0] if r['oracle'] else ''} ({r['wall']}s)")
            elif r["exit"] != 0:
                print(f"     {r['prop']}: exit {r['exit']} {r['tail'][-300:]}")
        sys.stdout.flush()
    if args.json:
        json.dump(report, open(args.json, "w"), indent=1)
    return 1 if bad else 0


if __name__ == "__main__":
    sys.exit(main())
