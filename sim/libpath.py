"""Make `import entity_query_language` resolve to the working tree under test.

The checks always import the package from source (VERIF_REPO_SRC, default /repo/src) so that edits to the
working tree are seen without any build step.
"""
import os
import sys

REPO_SRC = os.environ.get("VERIF_REPO_SRC", "/repo/src")


def install():
    if REPO_SRC in sys.path:
        sys.path.remove(REPO_SRC)
    sys.path.insert(0, REPO_SRC)
    for name in list(sys.modules):
        if name == "entity_query_language" or name.startswith("entity_query_language."):
            mod = sys.modules[name]
            f = getattr(mod, "__file__", "") or ""
            if not f.startswith(REPO_SRC):
                del sys.modules[name]


install()
