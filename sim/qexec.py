"""Plan interpreter helpers for the query-family properties (C04, C05, C06, C07, C09).

`QRun` owns every reference to every result iterator and exception object of a run (the GC seam): an
iterator is finalised only when a plan op says so (close / drop / collect after park).
Execution never draws randomness and never reads a clock.
"""
from __future__ import annotations

import gc
import sys
from typing import Any, Dict, List, Optional, Tuple

from . import libpath  # noqa: F401
from .kernel import Sim, SimFault, SimBudget, SimTimeout, set_current
from .reset import reset
from . import world as W
from .spec import Pool, BuildError

from entity_query_language.failures import MultipleSolutionFound, NoSolutionFound

TWIN_KINDS = {"list": "listcopy", "tuple": "listcopy", "gen": "listcopy", "iterobj": "listcopy",
              "logcol": "listcopy", "listcopy": "listcopy"}


def freeze(x):
    if isinstance(x, (list, tuple)):
        return tuple(freeze(e) for e in x)
    if isinstance(x, dict):
        return tuple(sorted((k, freeze(v)) for k, v in x.items()))
    return x


class Outcome:
    """What an evaluation delivered: rows (labels, in delivery order) and how it ended."""
    __slots__ = ("rows", "end", "exc")

    def __init__(self, rows, end, exc=None):
        self.rows, self.end, self.exc = rows, end, exc      # end: done | open | exc

    def rowset(self):
        return frozenset(freeze(r) for r in self.rows)

    def multiset(self):
        return tuple(sorted((freeze(r) for r in self.rows), key=repr))

    def brief(self):
        return {"end": self.end, "exc": self.exc, "n": len(self.rows), "rows": [repr(r) for r in self.rows[:12]]}


class Slot:
    __slots__ = ("it", "qid", "pool", "rows", "state", "exc")

    def __init__(self, it, qid, pool):
        self.it, self.qid, self.pool = it, qid, pool
        self.rows: List[Any] = []
        self.state = "open"       # open | done | closed | failed | dropped | parked
        self.exc = None


class _Cycle:
    """A reference cycle holding an iterator: only the cyclic GC can finalise it."""

    def __init__(self, it):
        self.it = it
        self.me = self


class QRun:
    MAX_ROWS = 50000

    def __init__(self, sim: Sim, plan: dict, stream_faults=None):
        self.sim = sim
        self.plan = plan
        reset()
        self.world = W.World(plan["world"])
        self.other = W.OtherContext()          # a second contextvars.Context, mode None there
        W.OTHER = self.other
        self.pool = Pool(self.world, plan["pool"], stream_faults=stream_faults)
        self.extensions: List[tuple] = []      # (qid, predicate name, literal) added to queries after building
        self.slots: Dict[str, Slot] = {}
        self.parked: List[Any] = []
        self.held: List[Any] = []
        self.unraisable: List[str] = []
        self._prev_hook = sys.unraisablehook
        sys.unraisablehook = self._unraisable

    def finish(self):
        try:
            self.other.leave()
        except Exception:
            pass
        W.OTHER = None
        sys.unraisablehook = self._prev_hook

    def _unraisable(self, u):
        self.unraisable.append(type(u.exc_value).__name__)
        self.sim.event("unraisable", type(u.exc_value).__name__)

    # ------------------------------------------------------------------ stepping
    def _next(self, slot: Slot):
        """One resumption of a result iterator = one step of that actor."""
        sim = self.sim
        sim.cb_enabled = True
        try:
            r = next(slot.it)
        except StopIteration:
            slot.state = "done"
            sim.event("end", slot.qid)
            return False
        except (SimBudget, SimTimeout):
            raise
        except BaseException as e:
            slot.state = "failed"
            slot.exc = type(e).__name__
            sim.event("raised", slot.qid, slot.exc)
            return False
        finally:
            sim.cb_enabled = False
        row = slot.pool.row(slot.pool.queries[slot.qid], r)
        slot.rows.append(row)
        sim.event("deliver", slot.qid, freeze(row))
        return True

    def start(self, name: str, qid: str, pool: Optional[Pool] = None) -> Slot:
        pool = pool or self.pool
        q = pool.queries[qid]
        self.sim.cb_enabled = True
        try:
            it = q.evaluate()
        finally:
            self.sim.cb_enabled = False
        s = Slot(it, qid, pool)
        self.slots[name] = s
        self.sim.event("start", qid)
        return s

    def advance(self, slot: Slot, k: Optional[int]) -> int:
        n = 0
        while slot.state == "open" and (k is None or n < k):
            if len(slot.rows) >= self.MAX_ROWS:
                raise SimBudget("rows per evaluation")
            if not self._next(slot):
                break
            n += 1
        return n

    def close(self, slot: Slot):
        if slot.state in ("open",):
            self.sim.cb_enabled = True
            try:
                slot.it.close()
            except BaseException as e:
                self.sim.event("close-raised", slot.qid, type(e).__name__)
            finally:
                self.sim.cb_enabled = False
            slot.state = "closed"
            self.sim.event("close", slot.qid)

    def drop(self, name: str):
        s = self.slots.get(name)
        if s is not None and s.it is not None:
            st = s.state
            s.it = None          # last reference: refcount finalisation happens right here
            if st == "open":
                s.state = "dropped"
            self.sim.event("drop", s.qid, st)

    def park(self, name: str):
        s = self.slots.get(name)
        if s is not None and s.it is not None:
            self.parked.append(_Cycle(s.it))
            s.it = None
            st = s.state
            if st == "open":
                s.state = "parked"
            self.sim.event("park", s.qid, st)

    def release_parked(self):
        """Make every parked cycle unreachable (it stays alive until `collect`)."""
        self.parked = []

    def collect(self):
        self.release_parked()
        n = gc.collect()
        self.sim.event("collect")
        return n

    # ------------------------------------------------------------------ whole evaluations
    def full(self, qid: str, pool: Optional[Pool] = None, fault_at: Optional[int] = None,
             quiet: bool = False) -> Outcome:
        """Evaluate an `an`/`infer` query to exhaustion (or until it raises)."""
        sim = self.sim
        pool = pool or self.pool
        q = pool.queries[qid]
        rows = []
        if quiet:
            return self._quiet(lambda: self._drain(q, pool, rows), rows)
        sim.fault_at = fault_at
        sim.cb_in_op = 0
        sim.faultable_in_op = 0
        sim.cb_enabled = True
        try:
            self._drain(q, pool, rows)
            out = Outcome(rows, "done")
        except (SimBudget, SimTimeout):
            raise
        except BaseException as e:
            out = Outcome(rows, "exc", type(e).__name__)
        finally:
            sim.cb_enabled = False
            sim.fault_at = None
        sim.event("full", qid, out.end, out.exc, tuple(freeze(r) for r in rows))
        return out

    def _drain(self, q, pool, rows):
        for r in q.evaluate():
            rows.append(pool.row(q, r))
            if len(rows) > self.MAX_ROWS:
                raise SimBudget("rows per evaluation")

    def _quiet(self, fn, rows) -> Outcome:
        """Run reference-side code: callbacks are neither events nor fault points."""
        sim = self.sim
        was = sim.cb_enabled
        sim.cb_enabled = False
        try:
            fn()
            return Outcome(rows, "done")
        except (SimBudget, SimTimeout):
            raise
        except BaseException as e:
            return Outcome(rows, "exc", type(e).__name__)
        finally:
            sim.cb_enabled = was

    def the_eval(self, qid: str, pool: Optional[Pool] = None, quiet: bool = False, fault_at: Optional[int] = None):
        """Evaluate a `the` query. Returns ("value", row) | ("exc", type name, exception object)."""
        sim = self.sim
        pool = pool or self.pool
        q = pool.queries[qid]
        was = sim.cb_enabled
        sim.cb_enabled = not quiet
        if not quiet:
            sim.fault_at = fault_at
            sim.faultable_in_op = 0
        try:
            r = q.evaluate()
            res = ("value", pool.row(q, r), None)
        except (SimBudget, SimTimeout):
            raise
        except BaseException as e:
            res = ("exc", type(e).__name__, e)
        finally:
            sim.cb_enabled = was
            if not quiet:
                sim.fault_at = None
        if not quiet:
            sim.event("the", qid, res[0], freeze(res[1]))
        return res

    def forget_inferred_instances(self):
        """Instances built by rule heads / Add conclusions are new data.  The history properties speak about
        UNCHANGED data, so after every evaluation the harness discards them from the registry again (the world's own
        objects are Items and are untouched)."""
        from entity_query_language.symbolic import Variable
        for cls in (W.View, W.Pair, W.Solo, W.Tagged):
            c = Variable._cache_.pop(cls, None)
            if c is not None:
                c.clear()

    @staticmethod
    def apply_extension(pool: Pool, qid: str, pred: str, k):
        """Extend an existing query the documented way: a class predicate written inside `with symbolic_mode(q):`
        becomes an additional condition of q, implicitly bound to q's selected variable."""
        from entity_query_language import symbolic_mode
        q = pool.queries[qid]
        with symbolic_mode():
          with q:                    # as in the repository's own test: with symbolic_mode(): with query: Pred(..)
            if pred == "IsBig":
                W.IsBig()
            elif pred == "Linked":
                W.Linked(pool.vars[k])          # Linked(<selected variable>, <another variable of the pool>)
            else:
                W.IsBig(W.V(k))

    def extend(self, qid: str, pred: str, k):
        self.apply_extension(self.pool, qid, pred, k)
        self.extensions.append((qid, pred, k))
        self.sim.event("extend", qid, pred, k)

    def twin(self, only: Optional[List[str]] = None) -> Optional[Pool]:
        """The same pool spec built from scratch, fresh variables, plain list copies of the same data (and the same
        extensions applied, in order, before anything is evaluated)."""
        try:
            tw = Pool(self.world, self.plan["pool"], domain_kinds=TWIN_KINDS, only=only)
            for qid, pred, k in self.extensions:
                if qid in tw.queries:
                    self.apply_extension(tw, qid, pred, k)
            return tw
        except BuildError:
            return None
        except Exception:
            return None
