"""./check entry point (see /verif/check)."""
from __future__ import annotations

import argparse
import json
import os
import subprocess
import sys
import time

VERIF = os.path.dirname(os.path.dirname(os.path.abspath(__file__)))


def _replay_path(prop_id, seed, tier, campaign, index):
    d = os.path.join(VERIF, "replays")
    os.makedirs(d, exist_ok=True)
    return os.path.join(d, f"{prop_id}_{tier}_{campaign}_s{seed}_i{index}.json")


def _determinism_selftest(prop_id: str, tier: str, seed: int, n: int):
    """Digests of n runs: twice in one process (reset between), in two fresh interpreters under two
    PYTHONHASHSEED values.  Any mismatch => the check refuses to report anything (exit 2)."""
    t0 = time.time()
    outs = []
    procs = []
    for hs in ("0", "4242"):
        env = dict(os.environ, PYTHONHASHSEED=hs, VERIF_SEED=str(seed))
        procs.append(subprocess.Popen(
            [sys.executable, "-m", "sim.selftest.determinism", "--prop", prop_id, "--tier", tier,
             "--n", str(n), "--emit"], cwd=VERIF, env=env, stdout=subprocess.PIPE, stderr=subprocess.PIPE))
    for p in procs:
        try:
            out, err = p.communicate(timeout=1800)
        except subprocess.TimeoutExpired:
            p.kill()
            return {"ok": False, "why": "selftest timeout"}
        if p.returncode != 0:
            return {"ok": False, "why": f"selftest exit {p.returncode}: {err.decode()[-2000:]}"}
        outs.append(out.decode())
    ok = outs[0] == outs[1] and len(outs[0]) > 0
    return {"ok": ok, "runs": n, "variants": ["same process twice after reset()", "fresh interpreter PYTHONHASHSEED=0",
                                              "fresh interpreter PYTHONHASHSEED=4242"],
            "wall_s": round(time.time() - t0, 2), "why": "" if ok else "digest mismatch across interpreters"}


def _do_replay(prop, path: str) -> int:
    with open(path) as f:
        doc = json.load(f)
    plan = doc["plan"]
    res = prop.execute(plan)
    want = doc.get("violation", {}).get("oracle")
    got = [v for v in res.violations if want is None or v.oracle == want]
    if got:
        v = got[0]
        match = "match" if res.digest == doc.get("digest") else "MISMATCH"
        print(f"VIOLATION property={prop.id} replay={path}")
        print(f"  oracle={v.oracle} op_index={v.op_index} digest={match}")
        print(f"  detail={json.dumps(v.detail, default=str)[:1500]}")
        return 1
    print(f"NOT-REPRODUCED property={prop.id} replay={path} (violations now: {res.violations})")
    return 0


def main(argv=None):
    ap = argparse.ArgumentParser(prog="check")
    ap.add_argument("prop")
    ap.add_argument("--tier", default=None, choices=["quick", "thorough"])
    ap.add_argument("--replay", default=None)
    ap.add_argument("--budget", type=float, default=None, help="wall cap per campaign in seconds")
    ap.add_argument("--runs", type=int, default=None, help="override number of runs per campaign")
    ap.add_argument("--workers", type=int, default=int(os.environ.get("VERIF_WORKERS", "16")))
    ap.add_argument("--campaign", default=None, help="only this sub-campaign")
    ap.add_argument("--no-selftest", action="store_true")
    ap.add_argument("--no-evidence", action="store_true")
    ap.add_argument("--start", type=int, default=0)
    args = ap.parse_args(argv)

    from . import props
    from .runner import run_campaign
    from . import evidence, findings
    from .shrink import shrink

    prop_id = args.prop.upper()
    if prop_id not in props.CLAIMED:
        print(f"unknown or unclaimed property {prop_id}", file=sys.stderr)
        return 2
    prop = props.load(prop_id)
    if args.replay:
        return _do_replay(prop, args.replay)

    tier = args.tier or os.environ.get("VERIF_TIER") or "quick"
    if tier not in ("quick", "thorough"):
        tier = "quick"
    seed = int(os.environ.get("VERIF_SEED", "0") or 0)
    t0 = time.time()
    print(f"check property={prop_id} tier={tier} VERIF_SEED={seed} src={os.environ.get('VERIF_REPO_SRC', '/repo/src')}")

    det = {"ok": True, "skipped": True}
    if not args.no_selftest:
        det = _determinism_selftest(prop_id, tier, seed, 12 if tier == "quick" else 64)
        if not det["ok"]:
            print(f"HARNESS-ERROR determinism self-test failed: {det['why']}")
            return 2
        print(f"determinism self-test ok ({det['runs']} runs x 3 variants, {det['wall_s']}s)")

    campaigns = {}
    exit_code = 0
    n_viol = 0
    known_reported = []
    for (name, n_runs, wall_cap) in prop.campaigns[tier]:
        if args.campaign and args.campaign != name:
            continue
        if args.runs:
            n_runs = args.runs
        if args.budget:
            wall_cap = args.budget
        is_known = name.startswith("known:")
        m = run_campaign(prop_id, tier, seed, name, n_runs, wall_cap, workers=args.workers,
                         chunk=getattr(prop, "chunk_of", {}).get(name, prop.chunk), start_index=args.start,
                         stop_on_violation=not is_known)
        campaigns[name] = m
        if is_known:
            print(f"campaign {name}: failing runs in the known-defect region: {m['n_violating']} of {m['runs']}")
        print(f"campaign {name}: runs={m['runs']}/{n_runs} nontrivial={m['nontrivial']} "
              f"distinct={len(m['sigs'])} skipped={m['skipped']} wall={m['wall_s']:.1f}s"
              f"{' (wall-capped)' if m['capped'] else ''}")
        for e in m["errors"]:
            exit_code = max(exit_code, 2)
            print(f"HARNESS-ERROR campaign={name} kind={e.get('kind')} index={e.get('index')}")
            print(str(e.get("msg"))[-3000:])
            if e.get("plan") is not None:
                p = _replay_path(prop_id, seed, tier, name, f"{e.get('index')}_error")
                with open(p, "w") as f:
                    json.dump({"plan": e["plan"], "error": e.get("msg")}, f, indent=1, default=str)
                print(f"  plan saved to {p}")
        seen_known = set()
        seen_oracles = set()
        # failing runs of a known-defect region that the workers minimised and matched against a listed finding
        for kid, kv in sorted(m.get("known", {}).items()):
            entry = [e for e in findings.load().get("open", []) if e["id"] == kid][0]
            sm = kv["sample"]
            path = _replay_path(prop_id, seed, tier, name.replace(":", "_"), sm["index"])
            with open(path, "w") as f:
                json.dump({"plan": sm["plan"], "violation": sm["violation"], "digest": sm["digest"],
                           "original_index": sm["index"], "shrink_executions": sm["shrink_executions"],
                           "original_ops": sm["original_ops"], "known_finding": kid}, f, indent=1, default=str)
            rp = subprocess.run([os.path.join(VERIF, "check"), prop_id, "--replay", path], cwd=VERIF,
                                capture_output=True, text=True, timeout=300)
            if rp.returncode != 1 or "digest=match" not in rp.stdout:
                print(f"HARNESS-ERROR replay of {path} in a fresh interpreter did not reproduce exactly:\n{rp.stdout}\n{rp.stderr[-1500:]}")
                exit_code = max(exit_code, 2)
                continue
            known_reported.append({"id": kid, "failing_runs_matched": kv["count"], "replay": path})
            print(f"KNOWN-FINDING: property={prop_id} {kid} {entry['what']} "
                  f"[{kv['count']} failing runs matched; replay={path}]")
        for viol in m["violations"]:
            first = viol["violations"][0]
            # one report per violated oracle per campaign (the lowest run index), so that a defect hit by
            # every chunk in flight is reported once
            if first["oracle"] in seen_oracles:
                continue
            seen_oracles.add(first["oracle"])
            plan = viol["plan"]
            small, res, used = shrink(prop, plan, first["oracle"])
            if res is None:
                # not reproducible in the parent: determinism problem => harness error, not a verdict
                print(f"HARNESS-ERROR violation at index {viol['index']} did not reproduce in-process")
                exit_code = max(exit_code, 2)
                continue
            v = [x for x in res.violations if x.oracle == first["oracle"]][0]
            known = findings.classify(prop_id, small, v.to_json())
            path = _replay_path(prop_id, seed, tier, name.replace(":", "_"), viol["index"])
            with open(path, "w") as f:
                json.dump({"plan": small, "violation": v.to_json(), "digest": res.digest,
                           "original_index": viol["index"], "shrink_executions": used,
                           "original_ops": len(plan.get("ops") or ())}, f, indent=1, default=str)
            # replay in a fresh interpreter; must fail the same way with the same digest
            rp = subprocess.run([os.path.join(VERIF, "check"), prop_id, "--replay", path], cwd=VERIF,
                                capture_output=True, text=True, timeout=300)
            if rp.returncode != 1 or "digest=match" not in rp.stdout:
                print(f"HARNESS-ERROR replay of {path} in a fresh interpreter did not reproduce exactly:\n{rp.stdout}\n{rp.stderr[-1500:]}")
                exit_code = max(exit_code, 2)
                continue
            if known is not None:
                if known["id"] not in seen_known:
                    seen_known.add(known["id"])
                    known_reported.append({"id": known["id"], "replay": path})
                    print(f"KNOWN-FINDING: property={prop_id} {known['id']} {known['what']} [replay={path}]")
                continue
            n_viol += 1
            exit_code = max(exit_code, 1)
            print(f"VIOLATION property={prop_id} replay={path}")
            print(f"  oracle={v.oracle} op_index={v.op_index} minimised_ops={len(small.get('ops') or ())} "
                  f"(from {len(plan.get('ops') or ())}) shrink_executions={used}")
            print(f"  detail={json.dumps(v.detail, default=str)[:1500]}")

    wall = time.time() - t0
    # vacuity: required probes must have fired
    if exit_code == 0 and not args.campaign and not args.runs:
        total = {}
        for m in campaigns.values():
            for k, val in m["counters"].items():
                total[k] = total.get(k, 0) + val
        missing = [k for k in prop.vacuity.get(tier, prop.vacuity.get("quick", [])) if not total.get(k)]
        if missing:
            print(f"HARNESS-ERROR campaign vacuous: probes at zero: {missing}")
            exit_code = 2
    if not args.no_evidence and campaigns:
        extra = prop.evidence_extra({"campaigns": campaigns})
        path = evidence.write(prop, tier, seed, campaigns, wall, n_viol, known_reported, det, extra)
        print(f"evidence written to {path}")
    if n_viol > 0:
        # a violation that was found, minimised and replayed is a verdict whatever trouble another campaign had
        exit_code = 1
    runs = sum(m["runs"] for m in campaigns.values())
    print(f"done property={prop_id} runs={runs} wall={wall:.1f}s exit={exit_code}")
    return exit_code


if __name__ == "__main__":
    sys.exit(main())
