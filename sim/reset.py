"""Per-run reset of every piece of process-global library state (DESIGN §1.3).

Without this, node ids, the expression map, the shared DAG, the instance registry and the lru_cache
memo tables leak from one simulated run into the next and replay digests depend on run order.
"""
from __future__ import annotations

import gc
import inspect

from . import libpath  # noqa: F401  (sys.path)

import rustworkx as rx
import entity_query_language.symbolic as S
import entity_query_language.conclusion as C
import entity_query_language.conclusion_selector as CS
import entity_query_language.cache_data as CD
import importlib
P = importlib.import_module('entity_query_language.predicate')
from entity_query_language.rxnode import RWXNode
import logging
import entity_query_language as _EQL
_EQL.logger.setLevel(logging.CRITICAL)   # the library's cartesian-product warnings are not an observable here


def _find_lru_wrappers():
    out, seen = [], set()
    for mod in (S, C, CS, CD, P):
        for _, cls in inspect.getmembers(mod, inspect.isclass):
            for k, v in list(vars(cls).items()):
                f = v.fget if isinstance(v, property) else v
                if hasattr(f, "cache_clear") and id(f) not in seen:
                    seen.add(id(f))
                    out.append(f)
        for k, v in list(vars(mod).items()):
            if hasattr(v, "cache_clear") and id(v) not in seen:
                seen.add(id(v))
                out.append(v)
    return out


_LRU = None
_BASE_SYMBOLS = None
_BASE_CLS_ARGS = None
_FROZEN = False


def freeze_heap():
    """Move everything allocated so far into the permanent generation so that the explicit
    gc.collect() calls of the simulator (a plan op) only scan what the run itself created."""
    global _FROZEN
    if not _FROZEN:
        gc.collect()
        gc.freeze()
        gc.disable()
        _FROZEN = True


def reset():
    """Bring the library back to a pristine state. Deterministic; does not touch the harness classes'
    registration in symbols_registry (they are defined once per process)."""
    global _LRU, _BASE_SYMBOLS, _BASE_CLS_ARGS
    if _LRU is None:
        _LRU = _find_lru_wrappers()
    if _BASE_SYMBOLS is None:
        _BASE_SYMBOLS = list(P.symbols_registry)
        _BASE_CLS_ARGS = dict(P.cls_args)
    S._symbolic_mode.set(None)
    CD._caching_enabled.set(True)
    del S.SymbolicExpression._symbolic_expression_stack_[:]
    S.id_generator._counter = 0
    S.SymbolicExpression._id_expression_map_.clear()
    RWXNode._graph = rx.PyDAG()
    for c in list(S.Variable._cache_.values()):
        c.clear()
    S.Variable._cache_.clear()
    for f in _LRU:
        f.cache_clear()
    for cnt in (CD.cache_enter_count, CD.cache_search_count, CD.cache_match_count,
                CD.cache_lookup_time, CD.cache_update_time):
        cnt.values.clear()
    # classes registered by a run (C14 builds classes per run) are dropped again
    del P.symbols_registry[len(_BASE_SYMBOLS):]
    for k in list(P.cls_args):
        if k not in _BASE_CLS_ARGS:
            del P.cls_args[k]
    gc.collect()


def mark_base():
    """Call after all process-lifetime harness classes are defined."""
    global _BASE_SYMBOLS, _BASE_CLS_ARGS
    _BASE_SYMBOLS = list(P.symbols_registry)
    _BASE_CLS_ARGS = dict(P.cls_args)
