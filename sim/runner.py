"""Campaign runner: seed derivation, sharding over forked workers, watchdogs, aggregation.

A campaign is N independent simulated runs.  Run i of property P at tier T under VERIF_SEED=S has the
PRNG seed  sha256(f"{S}/{P}/{T}/{i}")[:8]; the PRNG writes the plan and is never used during
execution.  Verdicts per run index are therefore independent of the worker count and of which worker
executed the run (checked by the determinism self-test).
"""
from __future__ import annotations

import faulthandler
import hashlib
import json
import multiprocessing
import os
import random
import sys
import time
import traceback
from collections import Counter
from concurrent.futures import ProcessPoolExecutor, wait, FIRST_COMPLETED
from typing import Any, Dict, List, Optional

from .kernel import HarnessError, SimTimeout


def run_seed(verif_seed: int, prop: str, tier: str, i: int, campaign: str = "") -> int:
    h = hashlib.sha256(f"{verif_seed}/{prop}/{tier}/{campaign}/{i}".encode()).digest()
    return int.from_bytes(h[:8], "big")


def sig_hash(sig: Any) -> int:
    return int.from_bytes(hashlib.blake2b(repr(sig).encode(), digest_size=8).digest(), "big")


class Result:
    """Outcome of executing one plan."""
    __slots__ = ("violations", "digest", "counters", "signature", "nontrivial", "steps", "states", "skipped",
                 "replan")

    def __init__(self):
        self.violations = []      # list[Violation]
        self.digest = ""
        self.counters = Counter()
        self.signature = None     # hashable schedule signature
        self.nontrivial = False
        self.steps = 0            # logical steps (global event sequence numbers consumed)
        self.states = ()          # abstract state fingerprints reached (coverage measure only)
        self.skipped = False      # plan could not be built / reference side not comparable
        self.replan = None        # enumerating plans: the concrete failing history, reported instead of the plan


# -------------------------------------------------------------------------------------------- worker

_PROP = None


def _worker_init(prop_id: str):
    global _PROP
    faulthandler.enable()
    from . import props
    _PROP = props.load(prop_id)
    from .reset import freeze_heap
    freeze_heap()


def _run_chunk(args):
    """Execute a chunk of run indices; returns an aggregate dict (picklable)."""
    (prop_id, tier, verif_seed, campaign, indices, deadline, want_samples, stop_on_violation) = args
    prop = _PROP
    agg = {
        "runs": 0, "skipped": 0, "nontrivial": 0, "steps": 0,
        "counters": Counter(), "sigs": set(), "states": set(),
        "samples": [], "violation": None, "violations": [], "n_violating": 0, "error": None, "known": {},
    }
    faulthandler.dump_traceback_later(3600, exit=True)
    try:
        for i in indices:
            if deadline and time.time() > deadline:
                break
            seed = run_seed(verif_seed, prop_id, tier, i, campaign)
            rng = random.Random(seed)
            plan = prop.gen(rng, tier, campaign)
            plan["prop"] = prop_id
            plan["seed"] = seed
            plan["index"] = i
            plan["campaign"] = campaign
            try:
                res = prop.execute(plan)
            except SimTimeout as e:
                agg["error"] = {"kind": "timeout", "index": i, "plan": plan, "msg": str(e)}
                break
            except HarnessError as e:
                agg["error"] = {"kind": "harness", "index": i, "plan": plan,
                                "msg": traceback.format_exc()}
                break
            except Exception:
                agg["error"] = {"kind": "harness-exception", "index": i, "plan": plan,
                                "msg": traceback.format_exc()}
                break
            if res.replan is not None and res.violations:
                res.replan.update({"prop": prop_id, "seed": seed, "index": i, "campaign": campaign})
                plan = res.replan
                res = prop.execute(plan)
            agg["runs"] += 1
            agg["steps"] += res.steps
            agg["counters"].update(res.counters)
            if res.skipped:
                agg["skipped"] += 1
            if res.nontrivial:
                agg["nontrivial"] += 1
                agg["sigs"].add(sig_hash(res.signature))
            for st in res.states:
                agg["states"].add(sig_hash(st))
            if want_samples and len(agg["samples"]) < want_samples and res.nontrivial:
                agg["samples"].append(plan)
            if res.violations and campaign.startswith("known:"):
                # known-defect region: minimise and classify every failing run right here, in parallel; only runs
                # whose minimised plan matches no listed finding are forwarded as (candidate) violations
                from .shrink import shrink
                from . import findings
                agg["n_violating"] += 1
                first = res.violations[0]
                small, sres, used = shrink(prop, plan, first.oracle, max_exec=250)
                entry = None
                if sres is not None:
                    sv = [x for x in sres.violations if x.oracle == first.oracle][0]
                    entry = findings.classify(prop_id, small, sv.to_json())
                if entry is not None:
                    k = agg["known"].setdefault(entry["id"], {"count": 0, "sample": None})
                    k["count"] += 1
                    if k["sample"] is None:
                        k["sample"] = {"index": i, "plan": small, "violation": sv.to_json(),
                                       "digest": sres.digest, "shrink_executions": used,
                                       "original_ops": len(plan.get("ops") or ())}
                elif len(agg["violations"]) < 4:
                    agg["violations"].append({"index": i, "plan": plan,
                                              "violations": [v.to_json() for v in res.violations],
                                              "digest": res.digest})
            elif res.violations:
                agg["n_violating"] += 1
                if len(agg["violations"]) < 4:
                    agg["violations"].append({"index": i, "plan": plan,
                                              "violations": [v.to_json() for v in res.violations],
                                              "digest": res.digest})
                if stop_on_violation:
                    break
    finally:
        faulthandler.cancel_dump_traceback_later()
    return agg


# -------------------------------------------------------------------------------------------- parent

def run_campaign(prop_id: str, tier: str, verif_seed: int, campaign: str, n_runs: int,
                 wall_cap: float, workers: int = 16, chunk: int = 50, start_index: int = 0,
                 stop_on_violation: bool = True) -> Dict[str, Any]:
    """Runs indices start_index..start_index+n_runs-1. Returns merged aggregate."""
    t0 = time.time()
    deadline = t0 + wall_cap if wall_cap else None
    ctx = multiprocessing.get_context("fork")
    merged = {
        "runs": 0, "skipped": 0, "nontrivial": 0, "steps": 0, "counters": Counter(),
        "sigs": set(), "states": set(), "samples": [], "violations": [], "errors": [],
        "requested": n_runs, "wall_s": 0.0, "capped": False, "n_violating": 0, "known": {},
    }
    chunks = []
    idx = list(range(start_index, start_index + n_runs))
    # interleave so that every worker sees a spread of indices even if the wall cap cuts the campaign
    for c in range(0, len(idx), chunk):
        chunks.append(idx[c:c + chunk])
    workers = max(1, min(workers, len(chunks)))
    with ProcessPoolExecutor(max_workers=workers, mp_context=ctx, initializer=_worker_init,
                             initargs=(prop_id,)) as ex:
        pending = set()
        it = iter(chunks)
        stop = False

        def submit_next():
            try:
                c = next(it)
            except StopIteration:
                return False
            want = 2 if len(merged["samples"]) < 6 else 0
            pending.add(ex.submit(_run_chunk, (prop_id, tier, verif_seed, campaign, c, deadline, want,
                                                    stop_on_violation)))
            return True

        for _ in range(workers * 2):
            if not submit_next():
                break
        while pending:
            done, _ = wait(pending, timeout=600, return_when=FIRST_COMPLETED)
            if not done:
                merged["errors"].append({"kind": "parent-timeout", "msg": "no chunk finished in 600s"})
                for f in pending:
                    f.cancel()
                break
            for f in done:
                pending.discard(f)
                if f.cancelled():
                    continue
                try:
                    agg = f.result()
                except Exception as e:  # worker died
                    merged["errors"].append({"kind": "worker-died", "msg": repr(e)})
                    stop = True
                    continue
                merged["runs"] += agg["runs"]
                merged["skipped"] += agg["skipped"]
                merged["nontrivial"] += agg["nontrivial"]
                merged["steps"] += agg["steps"]
                merged["counters"].update(agg["counters"])
                merged["sigs"] |= agg["sigs"]
                merged["states"] |= agg["states"]
                if len(merged["samples"]) < 6:
                    merged["samples"].extend(agg["samples"][: 6 - len(merged["samples"])])
                merged["n_violating"] += agg["n_violating"]
                for kid, kv in agg["known"].items():
                    mk = merged["known"].setdefault(kid, {"count": 0, "sample": None})
                    mk["count"] += kv["count"]
                    if mk["sample"] is None or kv["sample"]["index"] < mk["sample"]["index"]:
                        mk["sample"] = kv["sample"]
                if agg["violations"]:
                    merged["violations"].extend(agg["violations"])
                    if stop_on_violation:
                        stop = True
                if agg["error"]:
                    merged["errors"].append(agg["error"])
                    stop = True
                if not stop and not (deadline and time.time() > deadline):
                    submit_next()
            if stop:
                for f in list(pending):
                    if f.cancel():
                        pending.discard(f)
                # let running chunks finish (bounded by their own watchdogs)
                stop = False
                it = iter(())
        if deadline and time.time() > deadline and merged["runs"] < n_runs:
            merged["capped"] = True
    merged["wall_s"] = time.time() - t0
    # order violations by run index so that the reported one does not depend on scheduling
    merged["violations"].sort(key=lambda v: v["index"])
    return merged
