"""Writer for /verif/evidence/<id>.json (schema: /root/.vp/EVIDENCE.schema.json)."""
from __future__ import annotations

import json
import os
from typing import Any, Dict

VERIF = os.path.dirname(os.path.dirname(os.path.abspath(__file__)))
SCHEMA = "/root/.vp/EVIDENCE.schema.json"


def write(prop, tier: str, seed: int, campaigns: Dict[str, dict], wall_s: float, violations: int,
          known: list, determinism: dict, extra: Dict[str, Any]):
    runs = sum(m["runs"] for m in campaigns.values())
    nontrivial_sigs = set()
    states = set()
    counters = {}
    steps = 0
    samples = []
    per_campaign = {}
    for name, m in campaigns.items():
        nontrivial_sigs |= {(name, s) for s in m["sigs"]}
        states |= m["states"]
        steps += m["steps"]
        for k, v in m["counters"].items():
            counters[k] = counters.get(k, 0) + v
        for s in m["samples"][:3]:
            samples.append({"campaign": name, "plan": s})
        per_campaign[name] = {
            "runs": m["runs"], "requested": m["requested"], "skipped_not_comparable": m["skipped"],
            "nontrivial_runs": m["nontrivial"], "distinct_nontrivial": len(m["sigs"]),
            "wall_s": round(m["wall_s"], 2), "wall_capped": m["capped"], "steps": m["steps"],
            "failing_runs": m.get("n_violating", 0),
        }
    fired = {k: v for k, v in sorted(counters.items()) if k.startswith("fault_fired")}
    probes = {k: v for k, v in sorted(counters.items()) if k.startswith("probe:")}
    other = {k: v for k, v in sorted(counters.items())
             if not k.startswith("fault_fired") and not k.startswith("probe:")}
    rate = runs / wall_s * 3600 if wall_s > 0 else 0
    cov = {
        "evaluations": runs,
        "distinct_nontrivial": len(nontrivial_sigs),
        "rule": prop.rule,
        "samples": samples[:8] or [{"note": "no non-trivial sample recorded"}],
        "exhaustive": False,
        "campaigns": per_campaign,
        "runs_per_hour": int(rate),
        "seeds_per_hour": int(rate),
        "simulated_time": {"unit": "logical steps (global event sequence numbers); the library has no clock, "
                                   "timer, socket or file, so there is no simulated wall time to report",
                           "steps": steps},
        "faults_fired": fired,
        "rare_branch_probes": probes,
        "counters": other,
        "distinct_abstract_states": len(states),
        "components": prop.components,
        "determinism_selftest": determinism,
        "known_findings_reported": known,
    }
    cov.update(extra or {})
    doc = {
        "property_id": prop.id, "tier": tier, "seed": seed, "level": prop.level,
        "coverage": cov, "assumptions": list(prop.assumptions), "wall_s": round(wall_s, 2),
        "violations": violations,
    }
    path = os.path.join(VERIF, "evidence", f"{prop.id}.json")
    os.makedirs(os.path.dirname(path), exist_ok=True)
    tmp = path + ".tmp"
    with open(tmp, "w") as f:
        json.dump(doc, f, indent=1, sort_keys=False, default=str)
        f.write("\n")
    os.replace(tmp, path)
    _self_check(path)
    return path


def _self_check(path):
    try:
        import jsonschema  # not in /venv by default; best effort
    except Exception:
        return
    try:
        with open(SCHEMA) as f:
            schema = json.load(f)
        with open(path) as f:
            doc = json.load(f)
        jsonschema.validate(doc, schema)
    except FileNotFoundError:
        return
