"""Swarm generation of worlds and query pools (DESIGN §2.3): first a configuration, then the plan parts."""
from __future__ import annotations

import copy
from typing import Any, Dict, List

ALL_VOCAB = ["cmp2", "objeq", "in", "chain", "idx", "call", "fp", "cp", "ht", "forall", "flat", "nest", "kw", "nodom"]


def gen_config(rng, tier: str, **force) -> dict:
    big = tier == "thorough"
    vocab = {v for v in ALL_VOCAB if rng.random() < 0.45}
    cfg = {
        "n_obj": rng.randint(2, 8 if big else 6),
        "alphabet": rng.choice(["truthy", "truthy", "falsy"]),
        "vocab": sorted(vocab),
        "depth": rng.choice([0, 1, 1, 2, 2, 3]) if not big else rng.choice([0, 1, 2, 2, 3, 3, 4]),
        "n_vars": rng.choice([1, 1, 2, 2, 3]),
        "n_queries": rng.choice([1, 1, 2, 3]),
        "dups": rng.random() < 0.2,
        "kinds": ["list"],
        "types": rng.choice([["Item"], ["Item"], ["Item", "Gadget"], ["Item", "Gadget", "Widget"]]),
        "twins": rng.random() < 0.25,
        "all_selected": False,
        "setof_p": 0.5,
    }
    cfg.update(force)
    return cfg


def gen_world(rng, cfg) -> dict:
    n = cfg["n_obj"]
    if cfg.get("truthy_only"):
        cfg["alphabet"] = "truthy"
    vals = [1, 2, 3, 4] if cfg["alphabet"] == "truthy" else [0, 1, 2, 3]
    labels = [f"I{i}" for i in range(n)]
    objects = []
    for l in labels:
        t = rng.choice(cfg["types"])
        f = {"a": rng.choice(vals), "b": rng.choice(vals), "c": rng.choice(vals),
             "tags": [rng.choice(vals) for _ in range(rng.randint(1, 3))],
             "peer": rng.choice(labels),
             "kids": [rng.choice(labels) for _ in range(rng.randint(0, 2))]}
        if cfg.get("truthy_only") and not f["kids"]:
            f["kids"] = [rng.choice(labels)]        # an empty list is a falsy operand value too
        objects.append({"l": l, "t": t, "f": f})
    if cfg.get("twins") and n >= 2:
        # value-equal twins: distinct objects that compare == and hash alike
        i, j = rng.sample(range(n), 2)
        objects[i]["t"] = objects[j]["t"] = "Twin"
        for k in ("a", "b", "c"):
            objects[j]["f"][k] = objects[i]["f"][k]
        if rng.random() < 0.5:
            objects[j]["f"]["tags"] = list(objects[i]["f"]["tags"])
    domains = {}
    for d in range(3):
        k = rng.randint(1, n)
        dom = rng.sample(labels, k)
        if cfg["dups"] and rng.random() < 0.7:
            dom.insert(rng.randint(0, len(dom)), rng.choice(dom))
        domains[f"d{d}"] = dom
    return {"objects": objects, "domains": domains, "vals": vals}


class CondGen:
    def __init__(self, rng, cfg, world, var_names: List[str], types: Dict[str, str]):
        self.rng, self.cfg, self.world = rng, cfg, world
        self.vocab = set(cfg["vocab"])
        self.vars = var_names
        self.types = types
        self.vals = world["vals"]

    def lit(self):
        return ["lit", self.rng.choice(self.vals + [max(self.vals) + 1])]

    def obj_term(self, names, depth=0):
        t = ["v", self.rng.choice(names)]
        if "chain" in self.vocab and self.rng.random() < 0.25:
            t = ["attr", t, "peer"]
        if "flat" in self.vocab and self.rng.random() < 0.15:
            t = ["flat", ["attr", t, "kids"]]
        return t

    def num_term(self, names):
        o = self.obj_term(names)
        r = self.rng.random()
        if "idx" in self.vocab and r < 0.15:
            if self.rng.random() < 0.35:
                return ["idx", ["attr", o, "meta"], "k"]
            return ["idx", ["attr", o, "tags"], 0]
        if "call" in self.vocab and r < 0.3:
            if self.rng.random() < 0.5:
                return ["call", o, "m0", []]
            return ["call", o, "m1", [self.rng.choice([0, 1])]]
        return ["attr", o, self.rng.choice(["a", "a", "b", "c"])]

    def atom(self, names):
        rng = self.rng
        choices = ["cmp"]
        for v in ("cmp2", "objeq", "in", "fp", "cp", "ht"):
            if v in self.vocab:
                choices.append(v)
        if "objeq" in choices and len(names) < 2 and "chain" not in self.vocab:
            choices.remove("objeq")
        k = rng.choice(choices)
        op = rng.choice(["==", "!=", "<", "<=", ">", ">="])
        if k == "cmp":
            return ["cmp", self.num_term(names), op, self.lit()]
        if k == "cmp2":
            if len(names) >= 2 and rng.random() < 0.6:
                a, b = rng.sample(names, 2)       # a join condition between two different variables
                return ["cmp", self.num_term([a]), op, self.num_term([b])]
            return ["cmp", self.num_term(names), op, self.num_term(names)]
        if k == "objeq":
            return ["cmp", self.obj_term(names), rng.choice(["==", "!="]), self.obj_term(names)]
        if k == "in":
            r = rng.random()
            if r < 0.4:
                return ["in", self.lit(), ["attr", self.obj_term(names), "tags"]]
            if r < 0.8:
                return ["in", self.num_term(names), ["lit", rng.sample(self.vals, 2)]]
            return ["in", ["v", rng.choice(names)], ["attr", self.obj_term(names), "kids"]]
        if k == "fp":
            name = rng.choice(["p_odd", "p_ge", "p_link", "p_has", "p_calls", "p_makes"] +
                              (["p_inner", "p_ctx"] if self.cfg.get("inner_eval") else []))
            if name in ("p_odd", "p_calls", "p_makes", "p_inner", "p_ctx"):
                return ["fp", name, [self.obj_term(names)]]
            if name == "p_link":
                return ["fp", name, [self.obj_term(names), self.obj_term(names)]]
            return ["fp", name, [self.obj_term(names), self.lit()]]
        if k == "cp":
            name = rng.choice(["IsBig", "IsBigK", "Linked"])
            if name == "IsBig":
                return ["cp", name, [self.obj_term(names)]]
            if name == "IsBigK":
                return ["cp", name, [self.obj_term(names), self.lit()]]
            return ["cp", name, [self.obj_term(names), self.obj_term(names)]]
        if k == "ht":
            return ["ht", self.obj_term(names), rng.choice(["Gadget", "Item", "Widget"])]
        raise AssertionError(k)

    def cond(self, names, depth):
        rng = self.rng
        if depth <= 0 or rng.random() < 0.3:
            if "nest" in self.vocab and rng.random() < 0.15:
                n = rng.choice(names)
                return ["nest", n, [self.cond([n], max(0, depth - 1))]]
            return self.atom(names)
        r = rng.random()
        if len(names) >= 2 and rng.random() < 0.12:
            # a disjunction (or conjunction) of join conditions over the same two variables, e.g.
            # or_(worker.grade == job.grade, worker.site == job.site)
            a, b = rng.sample(names, 2)
            ops = ["==", "==", "!=", "<", "<=", ">", ">="]
            parts = [["cmp", self.num_term([a]), rng.choice(ops), self.num_term([b])]
                     for _ in range(rng.choice([2, 2, 3]))]
            return [rng.choice(["or", "or", "and"])] + parts
        if r < 0.4:
            return ["and", self.cond(names, depth - 1), self.cond(names, depth - 1)]
        if r < 0.8:
            # disjunctions over equal and over different variable sets both matter (else-if vs union)
            if len(names) > 1 and rng.random() < 0.5:
                a, b = rng.sample(names, 2)
                return ["or", self.cond([a], depth - 1), self.cond([b], depth - 1)]
            return ["or", self.cond(names, depth - 1), self.cond(names, depth - 1)]
        return ["not", self.cond(names, depth - 1)]


def gen_pool(rng, cfg, world) -> dict:
    names = ["x", "y", "z"][: cfg["n_vars"]]
    vars_ = []
    types = {}
    doms = sorted(world["domains"])
    for n in names:
        t = rng.choice([t for t in cfg["types"] if t != "Widget"] or ["Item"])
        form = rng.choice(["let", "let", "From"])
        v = {"n": n, "t": t, "dom": rng.choice(doms), "kind": rng.choice(cfg["kinds"]), "form": form}
        if "kw" in cfg["vocab"] and rng.random() < cfg.get("kw_p", 0.3):
            v["form"] = "kw"
            v["kw"] = {rng.choice(["a", "b"]): rng.choice(world["vals"])}
        if "nodom" in cfg["vocab"] and cfg.get("allow_nodom") and rng.random() < 0.3:
            # no explicit domain: the variable ranges over the instance registry (all of the world's objects)
            v["dom"] = None
            v["kind"] = "list"
            if v["form"] == "From":
                v["form"] = "let"
        vars_.append(v)
        types[n] = t
    extra = []
    if "forall" in cfg["vocab"]:
        u = {"n": "u", "t": "Item", "dom": rng.choice(doms), "kind": "list", "form": "let"}
        extra.append(u)
    cg = CondGen(rng, cfg, world, names, types)
    queries = []
    for qi in range(cfg["n_queries"]):
        k = rng.randint(1, len(names))
        sel = rng.sample(names, k)
        scope = sel if cfg["all_selected"] else names
        conds = []
        for _ in range(rng.choice([0, 1, 1, 1, 2])):
            conds.append(cg.cond(scope, cfg["depth"]))
        if extra and rng.random() < 0.5:
            conds.append(["forall", ["v", "u"], cg.cond(scope + ["u"], min(1, cfg["depth"]))])
        shape = "entity" if (len(sel) == 1 and rng.random() > cfg["setof_p"] * 0.3) else "set_of"
        if shape == "entity":
            sel = sel[:1] if cfg["all_selected"] else sel[:1]
            if cfg["all_selected"]:
                # conditions may only mention the selected variable
                cg1 = cg
                conds = [cg1.cond(sel, cfg["depth"]) for _ in conds] or []
        queries.append({"id": f"q{qi}", "quant": "an", "shape": shape, "sel": sel, "conds": conds})
    return {"vars": vars_ + extra, "queries": queries}


# ------------------------------------------------------------------------------------------ regions
# Syntactic regions of the query space in which the pinned engine has genuine, recorded defects
# (/verif/known_findings.json).  A region is a predicate over the query *spec* (the input), never over an
# outcome.  Main campaigns stay outside every region; "known:<region>" campaigns stay inside exactly one.

def _walk(t, fn, under=()):
    if isinstance(t, list):
        if t and isinstance(t[0], str):
            fn(t, under)
            under = under + (t[0],)
        for x in t:
            _walk(x, fn, under)
    elif isinstance(t, dict):
        for x in t.values():
            _walk(x, fn, under)


def query_regions(q, forms=None) -> set:
    """Names of the known-defect regions this query spec lies in.  `forms` maps variable name -> declaration form
    (needed only for the region about kwargs-form variables)."""
    kinds = set()
    rep_arg = []
    disj_under_not = []
    mixed = []
    mixed_conj_in_disj = []

    def fn(t, under):
        k = t[0]
        is_disj = (k == "or" and under.count("not") % 2 == 0) or (k == "and" and under.count("not") % 2 == 1)
        is_conj = (k == "and" and under.count("not") % 2 == 0) or (k == "or" and under.count("not") % 2 == 1)
        if is_conj and len({frozenset(_vars_in(x)) for x in t[1:]}) > 1:
            # a conjunction over different variable sets fails with only part of the variables bound
            neg = 0
            for u in under:
                if u == "not":
                    neg += 1
                elif (u == "or" and neg % 2 == 0) or (u == "and" and neg % 2 == 1):
                    mixed_conj_in_disj.append(1)
                    break
        if is_disj and len({frozenset(_vars_in(x)) for x in t[1:]}) > 1:
            mixed.append(1)
        if is_disj:
            disj_under_not.append(1)
        if k in ("and", "or", "not", "forall", "nest", "flat", "cat", "fp", "cp"):
            kinds.add(k)
        if k == "sub":
            kinds.add("nest")               # a shared sub-query object is a nested query for every region
        if k in ("fp", "cp") and len(t) > 2 and isinstance(t[2], list):
            vs = [repr(_root_var(a)) for a in t[2]]
            vs = [v for v in vs if v != "None"]
            if len(vs) != len(set(vs)):
                rep_arg.append(1)
    _walk(q.get("conds", []), fn)
    _walk(q.get("rule", {}), fn)
    # constructor arguments of rule heads / Add conclusions are evaluated like predicate arguments
    for args in _ctor_args(q):
        vs = [repr(_root_var(a)) for a in args.values()]
        vs = [v for v in vs if v != "None"]
        if len(vs) != len(set(vs)):
            rep_arg.append(1)
    disj = bool(disj_under_not)        # a disjunction after the engine's De Morgan rewriting
    out = set()
    if disj and "forall" in kinds:
        out.add("disjunction+for_all")
    if disj and ("flat" in kinds or "cat" in kinds):
        out.add("disjunction+flatten")
    if disj and "nest" in kinds:
        out.add("disjunction+nested_query")
    if rep_arg:
        out.add("predicate_with_repeated_variable")
    if mixed:
        out.add("disjunction_over_different_variables")
    if mixed_conj_in_disj:
        out.add("disjunction_of_multi_variable_conjunction")
    if _rule_kinds(q.get("rule") or {}) & {"alternative", "next"} or _rule_max_children(q.get("rule") or {}) > 1 \
            or _rule_branch_has_disjunction(q.get("rule") or {}):
        # alternative()/next_rule() branches, a node with two or more branches of any kind, or a branch whose own
        # condition contains a disjunction
        out.add("rule_tree_with_alternative_or_next")
    if forms:
        used = set(q.get("sel", [])) | _vars_in(q.get("conds", [])) | _vars_in(q.get("head", [])) | \
            _vars_in(q.get("rule", {}))
        n_nested = sum(1 for v in used if forms.get(v) in ("kw", "nodom"))
        n_plain = sum(1 for v in used if forms.get(v) not in ("kw", "nodom", None) and not str(v).startswith("v"))
        if n_nested >= 2 or (n_nested >= 1 and n_plain >= 1 and len(used) >= 2):
            # a kwargs-form or registry-backed variable joined with other variables
            out.add("kwargs_form_variable_in_multi_variable_query")
    return out


def _ctor_args(q):
    out = []
    if q.get("head"):
        out.append(q["head"][1])

    def walk(node):
        if node.get("add"):
            out.append(node["add"][1])
        for ch in node.get("children", []):
            walk(ch["node"])
    walk(q.get("rule") or {})
    return out


def _rule_branch_has_disjunction(node):
    for ch in node.get("children", []):
        found = []

        def fn(t, under):
            k = t[0]
            if (k == "or" and under.count("not") % 2 == 0) or (k == "and" and under.count("not") % 2 == 1):
                found.append(1)
        _walk(ch.get("conds", []), fn)
        if found or _rule_branch_has_disjunction(ch["node"]):
            return True
    return False


def _rule_max_children(node):
    m = len(node.get("children", []))
    for ch in node.get("children", []):
        m = max(m, _rule_max_children(ch["node"]))
    return m


def _rule_kinds(node):
    out = set()
    for ch in node.get("children", []):
        out.add(ch["kind"])
        out |= _rule_kinds(ch["node"])
    return out


def _vars_in(t):
    out = set()

    def fn(x, under):
        if x[0] == "v":
            out.add(x[1])
        if x[0] in ("nest", "sub"):
            out.add(x[1])
    _walk(t, fn)
    return out


def _root_var(t):
    while isinstance(t, list) and t:
        if t[0] == "v":
            return t[1]
        if t[0] in ("attr", "idx", "call", "flat", "cat"):
            t = t[1]
        else:
            return None
    return None


def pool_regions(pool) -> set:
    out = set()
    # a variable without a domain is registry-backed: like a kwargs-form variable it is a generator-fed nested
    # source, and the region below counts both kinds
    forms = {v["n"]: ("nodom" if v.get("dom") is None and v.get("t") != "View" else v.get("form", "let"))
             for v in pool["vars"]}
    for v in pool["vars"]:
        if v.get("form") == "kw":
            forms[v["n"]] = "kw"
    for q in pool["queries"]:
        out |= query_regions(q, forms)
    return out


def gen_world_and_pool(rng, cfg, want_region=None, tries=60):
    """Draw (world, pool) outside every known-defect region (want_region=None) or inside exactly the given one."""
    last = None
    for _ in range(tries):
        world = gen_world(rng, cfg)
        pool = gen_pool(rng, cfg, world)
        regs = pool_regions(pool)
        last = (world, pool)
        if want_region is None and not regs:
            return world, pool
        if want_region is not None and regs == {want_region}:
            return world, pool
        if want_region is not None:
            # steer the vocabulary toward the region
            need = {"disjunction+for_all": ["forall"], "disjunction+flatten": ["flat"],
                    "disjunction+nested_query": ["nest"], "predicate_with_repeated_variable": ["fp", "cp"],
                    "disjunction_over_different_variables": [],
                    "disjunction_of_multi_variable_conjunction": [],
                    "rule_tree_with_alternative_or_next": [],
                    "kwargs_form_variable_in_multi_variable_query": ["kw"]}[want_region]
            if want_region == "kwargs_form_variable_in_multi_variable_query":
                cfg["n_vars"] = max(cfg["n_vars"], 2)
                cfg["kw_p"] = 0.8
            if want_region == "disjunction_of_multi_variable_conjunction":
                cfg["depth"] = max(cfg["depth"], 2)
            if want_region in ("disjunction_over_different_variables", "disjunction_of_multi_variable_conjunction"):
                cfg["n_vars"] = max(cfg["n_vars"], 2)
            cfg["vocab"] = sorted(set(cfg["vocab"]) | set(need))
            cfg["depth"] = max(cfg["depth"], 1)
    if want_region is None:
        # fall back: strip the offending queries' conditions down to their first atom-free form
        world, pool = last
        for q in pool["queries"]:
            if query_regions(q):
                q["conds"] = []
        if pool_regions(pool):
            for v in pool["vars"]:
                if v.get("form") == "kw":
                    v["form"] = "let"
                    v.pop("kw", None)
        return world, pool
    # could not hit the wanted region exactly: keep only queries that are in that region alone or in none
    world, pool = last
    for q in pool["queries"]:
        if query_regions(q) - {want_region}:
            q["conds"] = []
    return world, pool


# ------------------------------------------------------------------------------------------ shared sub-queries

def share_subquery(rng, cfg, world, pool):
    """One reusable sub-query OBJECT (`allowed = an(entity(x, ...))`) becomes a conjunct of two or more queries of
    the pool, at different positions, so that one set of condition nodes is evaluated in different binding
    contexts (its variable already bound by an earlier conjunct / still unbound)."""
    names = [v["n"] for v in pool["vars"] if v["n"] != "u" and v.get("t") != "View"]
    for _ in range(40):
        n = rng.choice(names)
        cg = CondGen(rng, dict(cfg, vocab=sorted((set(cfg["vocab"]) | {"in"}) - {"nest", "forall", "flat"})),
                       world, names, {})
        sub_conds = []
        for _k in range(rng.choice([1, 1, 2])):
            if rng.random() < 0.5:
                # the literal operand comes first: in_(x.a, [1, 3]) is contains([1, 3], x.a)
                sub_conds.append(["in", cg.num_term([n]), ["lit", rng.sample(world["vals"], 2)]])
            else:
                sub_conds.append(cg.atom([n]))
        sub = ["sub", n, sub_conds, "s0"]
        chosen = rng.sample(range(len(pool["queries"])), rng.randint(2, len(pool["queries"])))
        trial = copy.deepcopy(pool["queries"])
        for qi in chosen:
            q = trial[qi]
            conds = q.setdefault("conds", [])
            conds.insert(rng.randint(0, len(conds)), copy.deepcopy(sub))
            others = [m for m in names if m != n]
            if others and rng.random() < 0.5:
                # a join condition with another variable, before or after the sub-query
                o = rng.choice(others)
                j = ["cmp", cg.num_term([o]), rng.choice(["==", "==", "!=", "<", ">="]), cg.num_term([n])]
                conds.insert(rng.randint(0, len(conds)), j)
                if q.get("shape") == "set_of" and o not in q["sel"] and rng.random() < 0.7:
                    q["sel"] = q["sel"] + [o]
        probe = dict(pool, queries=trial)
        if not pool_regions(probe):
            pool["queries"] = trial
            return
    # could not stay outside the known-defect regions: the sub-query alone
    n = names[0]
    for q in pool["queries"]:
        q["conds"] = [["sub", n, [["in", ["attr", ["v", n], "a"], ["lit", list(world["vals"][:2])]]], "s0"]]
    if pool_regions(pool):
        for q in pool["queries"]:
            q["conds"] = []


def share_condition(rng, cfg, world, pool):
    """One join-condition OBJECT (`same = a.x == b.y`) is used by two or more queries of the pool, each time behind a
    different filter, so that its operator cache and coverage list are written under one query's bindings and read
    under another's."""
    names = [v["n"] for v in pool["vars"] if v["n"] != "u" and v.get("t") != "View"]
    if len(names) < 2 or len(pool["queries"]) < 2:
        return
    for _ in range(40):
        a, b = rng.sample(names, 2)
        cg = CondGen(rng, dict(cfg, vocab=sorted(set(cfg["vocab"]) - {"nest", "forall", "flat"})), world, names, {})
        ops = ["==", "==", "!=", "<", "<=", ">", ">="]
        shared = ["shared", "c0", ["cmp", cg.num_term([a]), rng.choice(ops), cg.num_term([b])]]
        chosen = rng.sample(range(len(pool["queries"])), rng.randint(2, len(pool["queries"])))
        trial = copy.deepcopy(pool["queries"])
        for qi in chosen:
            q = trial[qi]
            r = rng.random()
            if r < 0.4:
                filt = [["cmp", cg.num_term([rng.choice([a, b])]), rng.choice(ops), cg.lit()]]
            elif r < 0.8:
                filt = [["cmp", cg.num_term([a]), rng.choice(ops), cg.num_term([b])]]      # a pair filter
            else:
                filt = []
            keep = q.get("conds", []) if rng.random() < 0.3 else []
            q["conds"] = filt + [copy.deepcopy(shared)] + keep if rng.random() < 0.8 else \
                [copy.deepcopy(shared)] + filt + keep
            if rng.random() < 0.7:
                q["shape"] = "set_of"
                q["sel"] = [a, b]
        probe = dict(pool, queries=trial)
        if not pool_regions(probe):
            pool["queries"] = trial
            return


# ------------------------------------------------------------------------------------------ rules / inference

def gen_rule_pool(rng, cfg, world, kinds=("infer", "add")) -> dict:
    """Pools whose queries build instances: infer(entity(T(f=e,...), conds)) and Add-conclusion rule trees."""
    doms = sorted(world["domains"])
    names = ["x", "y"][: max(1, min(2, cfg["n_vars"]))]
    vars_ = [{"n": n, "t": "Item", "dom": rng.choice(doms), "kind": "list", "form": rng.choice(["let", "From"])}
             for n in names]
    cg = CondGen(rng, dict(cfg, vocab=[v for v in cfg["vocab"] if v in ("cmp2", "objeq", "in", "chain", "idx",
                                                                         "call", "fp", "cp", "ht")]),
                 world, names, {})
    queries = []

    def head():
        if len(names) > 1 and rng.random() < 0.6:
            return ["Pair", {"l": ["v", "x"], "r": ["v", "y"]}]
        r = rng.random()
        if r < 0.5:
            return ["Solo", {"of": ["v", rng.choice(names)]}]
        return ["Tagged", {"of": ["v", rng.choice(names)], "k": ["attr", ["v", rng.choice(names)], "a"]}]

    def conds(n=None, depth=None):
        d = cfg["depth"] if depth is None else depth
        return [cg.cond(names, min(d, 2)) for _ in range(rng.choice([1, 1, 2]) if n is None else n)]

    for qi in range(rng.choice([1, 1, 2])):
        kind = rng.choice(list(kinds))
        if kind == "infer":
            queries.append({"id": f"q{qi}", "quant": rng.choice(["infer", "infer", "an"]), "mode": "rule",
                            "shape": "entity", "sel": [], "head": head(), "conds": conds()})
        else:
            hv = f"v{qi}"
            vars_.append({"n": hv, "t": "View", "dom": None, "form": "let"})

            def node(depth):
                n = {"add": head(), "children": []}
                if depth > 0:
                    for _ in range(rng.choice([0, 1, 1, 2])):
                        n["children"].append({"kind": rng.choice(["refinement", "alternative", "next"]),
                                              "conds": conds(1, 1), "node": node(depth - 1)})
                return n
            queries.append({"id": f"q{qi}", "quant": "an", "mode": "query", "shape": "entity", "sel": [hv],
                            "conds": conds(), "rule": node(rng.choice([0, 1, 1, 2]))})
    return {"vars": vars_, "queries": queries}
