#!/bin/bash
# tools/with_patch.sh <patch.diff> <command...>: run a command with VERIF_REPO_SRC pointing at a scratch copy of
# /repo/src with the patch applied (copy removed afterwards)
p=$(realpath "$1"); shift
d=$(mktemp -d "${TMPDIR:-/tmp}/eqlpatch_XXXX")
cp -r /repo/src "$d/"
(cd "$d" && patch -p1 -s -i "$p") || { echo "patch failed"; rm -rf "$d"; exit 2; }
( cd "$(dirname "$0")/.." && VERIF_REPO_SRC="$d/src" "$@" ); rc=$?
rm -rf "$d"
exit $rc
