#!/bin/bash
# tools/sweep_seeds.sh <first> <last> [props...]: run every quick check under several VERIF_SEED values
# (no evidence written); prints one line per (seed, property) and every VIOLATION / HARNESS-ERROR line.
cd "$(dirname "$0")/.." || exit 2
first=$1; last=$2; shift 2
props=${@:-C04 C05 C06 C07 C08 C09 C14 C20}
rc=0
for s in $(seq $first $last); do
  for p in $props; do
    out=$(VERIF_SEED=$s VERIF_WORKERS=${VERIF_WORKERS:-16} ./check $p --tier ${TIER:-quick} --no-evidence --no-selftest 2>&1)
    e=$?
    echo "seed=$s prop=$p exit=$e $(echo "$out" | grep -c '^KNOWN-FINDING') known"
    if [ $e -ne 0 ]; then rc=1; echo "$out" | grep -E -A3 'VIOLATION|HARNESS' | head -20; fi
  done
done
exit $rc
