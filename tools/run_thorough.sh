#!/bin/bash
# tools/run_thorough.sh [props...]: every thorough check once (no evidence), summary lines only
cd "$(dirname "$0")/.." || exit 2
props=${@:-C20 C08 C09 C14 C06 C07 C05 C04}
for p in $props; do
  out=$(VERIF_WORKERS=${VERIF_WORKERS:-16} ./check $p --tier thorough --no-evidence 2>&1); e=$?
  echo "== $p exit=$e"
  echo "$out" | grep -E "^campaign|^VIOLATION|^  oracle|^  detail|HARNESS|^done" | cut -c1-700
done
